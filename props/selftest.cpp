// Harness self-test workload (property id "SELF"): exercises the scheduler,
// recording, minimisation, crash handling and the sanitizer hooks without
// touching /repo.  Fault behaviours are armed only by STSIM_SELFTEST=<mask>.
#include "../sim/driver.hpp"
#include <cstdlib>

namespace
{
using namespace sim;

enum { OP_WORK, OP_ARM, OP_FAIL_IF, OP_LOST_UPDATE, OP_RACE, OP_OVERFLOW, OP_N };
const char *const kNames[] = {"work", "arm", "fail_if", "lost_update", "race", "overflow"};

int mask()
{
    const char *e = std::getenv("STSIM_SELFTEST");
    return e ? std::atoi(e) : 0;
}

Plan gen(uint64_t seed, uint64_t, Tier)
{
    Rng r(seed, 1);
    Plan p;
    int n = (int)r.range(3, 20);
    for (int k = 0; k < n; ++k)
    {
        Op o;
        o.kind = (int)r.below(OP_N);
        o.i = {r.range(0, 9), r.range(1, 4)};
        p.ops.push_back(o);
    }
    return p;
}

volatile int g_sink;

void exec(const Plan &p, RunCtx &ctx)
{
    Sched &S = Sched::get();
    S.set_sticky(300);
    int m = mask();
    bool armed = false;
    long counter = 0;
    for (auto &o : p.ops)
    {
        ctx.evs(kNames[o.kind % OP_N]);
        switch (o.kind % OP_N)
        {
        case OP_WORK:
        case OP_LOST_UPDATE:
        {
            int nf = (int)(1 + (o.I(1) % 4));
            long before = counter;
            std::vector<int> ids;
            for (int f = 0; f < nf; ++f)
                ids.push_back(S.spawn([&]() {
                    for (int k = 0; k < 3; ++k)
                    {
                        long v;
                        { NoRace g; v = counter; }
                        S.yield("rw");
                        { NoRace g; counter = v + 1; }
                    }
                }, "w"));
            S.join(ids);
            ctx.ival(counter);
            ctx.nontrivial = ctx.nontrivial || nf > 1;
            if (o.kind % OP_N == OP_LOST_UPDATE && (m & 1))
                SIM_CHECK(counter - before == 3L * nf, "lost_update", "counter advanced by " << (counter - before) << " instead of " << 3 * nf);
            break;
        }
        case OP_ARM: armed = true; break;
        case OP_FAIL_IF:
            if ((m & 2) && armed) SIM_CHECK(o.I(0) <= 5, "armed_fail", "value " << o.I(0));
            break;
        case OP_RACE:
            if (m & 4)
            {
                int *cell = new int(0);
                std::vector<int> ids;
                for (int f = 0; f < 2; ++f) ids.push_back(S.spawn([cell, f]() { *cell = f; }, "racer"));
                S.join(ids);
                delete cell;
            }
            break;
        case OP_OVERFLOW:
            if (m & 8)
            {
                int *buf = new int[4];
                g_sink = buf[4 + (o.I(0) % 2)];
                delete[] buf;
            }
            break;
        }
    }
}

Register reg(Workload{"SELF", "core", gen, exec, kNames, OP_N, true, 1});
} // namespace
