// Reference models for the optimizer world: decision-vector layout, decode,
// validity predicate, and the configuration value of an optimizer handle.
#pragma once
#include "problem.hpp"
#include "../env/env.hpp"

namespace optw
{
using namespace simx;
using prob::Problem;

// flag bits in the order of the OptimizationFlags struct
enum { F_SP = 1, F_SV = 2, F_SA = 4, F_SJ = 8, F_EP = 16, F_EV = 32, F_EA = 64, F_EJ = 128 };

inline SplineTrajectory::OptimizationFlags make_flags(int mask)
{
    SplineTrajectory::OptimizationFlags f;
    f.start_p = mask & F_SP; f.start_v = mask & F_SV; f.start_a = mask & F_SA; f.start_j = mask & F_SJ;
    f.end_p = mask & F_EP; f.end_v = mask & F_EV; f.end_a = mask & F_EA; f.end_j = mask & F_EJ;
    return f;
}

struct Layout
{
    int N = 0;
    struct Pt { int index, offset, dof; };
    std::vector<Pt> pts;
    int deriv_offset = 0;
    std::vector<int> deriv_fields; // 0 sv, 1 sa, 2 sj, 3 ev, 4 ea, 5 ej  (in vector order)
    int total = 0;
};

// The statement of C09, written down independently of the library.
template <class DofFn>
inline Layout layout_model(int N, int mask, int order, int DIM, DofFn dof)
{
    Layout L;
    L.N = N;
    if (N <= 0) return L;
    int off = N; // one time variable per segment first
    for (int i = 0; i <= N; ++i)
    {
        bool optimised = (i == 0) ? (mask & F_SP) != 0 : (i == N) ? (mask & F_EP) != 0 : true;
        if (!optimised) continue;
        int d = dof(i);
        L.pts.push_back({i, off, d});
        off += d;
    }
    L.deriv_offset = off;
    if (mask & F_SV) L.deriv_fields.push_back(0);
    if (order >= 5 && (mask & F_SA)) L.deriv_fields.push_back(1);
    if (order >= 7 && (mask & F_SJ)) L.deriv_fields.push_back(2);
    if (mask & F_EV) L.deriv_fields.push_back(3);
    if (order >= 5 && (mask & F_EA)) L.deriv_fields.push_back(4);
    if (order >= 7 && (mask & F_EJ)) L.deriv_fields.push_back(5);
    L.total = off + (int)L.deriv_fields.size() * DIM;
    return L;
}

template <int DIM>
inline typename Problem<DIM>::Vec &bc_field(SplineTrajectory::BoundaryConditions<DIM> &bc, int f)
{
    switch (f)
    {
    case 0: return bc.start_velocity;
    case 1: return bc.start_acceleration;
    case 2: return bc.start_jerk;
    case 3: return bc.end_velocity;
    case 4: return bc.end_acceleration;
    default: return bc.end_jerk;
    }
}
template <int DIM>
inline const typename Problem<DIM>::Vec &bc_field(const SplineTrajectory::BoundaryConditions<DIM> &bc, int f)
{
    return bc_field<DIM>(const_cast<SplineTrajectory::BoundaryConditions<DIM> &>(bc), f);
}
inline bool order_has_field(int order, int f)
{
    int k = f % 3; // 0 velocity, 1 acceleration, 2 jerk
    return k == 0 || (k == 1 && order >= 5) || (k == 2 && order >= 7);
}

// ------------------------------------------------------- input faults ------
// kinds of bad input for setInitState (C16)
enum
{
    BAD_NONE, BAD_TIME_NAN, BAD_TIME_PINF, BAD_TIME_NINF, BAD_TIME_ZERO, BAD_TIME_NEG, BAD_TIME_BELOW, BAD_TIME_DENORM,
    BAD_WP_NAN, BAD_WP_PINF, BAD_WP_NINF, BAD_BC_NAN, BAD_BC_PINF, BAD_BC_NINF, BAD_START_NAN, BAD_START_INF,
    BAD_ROWS_PLUS, BAD_ROWS_MINUS, BAD_EMPTY_TIMES, BAD_EMPTY_ALL, OK_TIME_AT, OK_TIME_ABOVE,
    OK_HUGE_WP, OK_HUGE_BC, OK_HUGE_TIME, OK_HUGE_START, BAD_N
};
static const char *const kBadNames[] = {"none", "time_nan", "time_pinf", "time_ninf", "time_zero", "time_negative", "time_one_ulp_below_1ms",
                                        "time_denormal", "waypoint_nan", "waypoint_pinf", "waypoint_ninf", "bc_nan", "bc_pinf", "bc_ninf",
                                        "start_nan", "start_inf", "one_row_too_many", "one_row_too_few", "empty_times", "empty_everything",
                                        "time_exactly_1ms", "time_one_ulp_above_1ms", "huge_finite_waypoint_row", "huge_finite_boundary_state",
                                        "huge_finite_duration", "huge_finite_start_time"};

// The predicate of C16, evaluated on exactly what the library is given.
template <int DIM>
inline bool validity_model(const std::vector<double> &T, const typename Problem<DIM>::Mat &P, double t0,
                           const SplineTrajectory::BoundaryConditions<DIM> &bc, int order)
{
    const int N = (int)T.size();
    if (N < 1) return false;
    if (P.rows() != N + 1) return false;
    if (!std::isfinite(t0)) return false;
    for (double t : T)
        if (!std::isfinite(t) || !(t >= 1e-3)) return false;
    for (Eigen::Index i = 0; i < P.rows(); ++i)
        for (Eigen::Index d = 0; d < P.cols(); ++d)
            if (!std::isfinite(P(i, d))) return false;
    for (int f = 0; f < 6; ++f)
    {
        if (!order_has_field(order, f)) continue;
        const auto &v = bc_field<DIM>(bc, f);
        for (int d = 0; d < DIM; ++d)
            if (!std::isfinite(v(d))) return false;
    }
    return true;
}

// Configuration value of one optimizer handle (what a fresh twin is built from)
template <int DIM>
struct OptModel
{
    bool configured = false;
    bool valid = false;
    Problem<DIM> prob;
    int mask = 0;
    double rho = 0.0;
    int K = 64;
    int tm_user = -1, sm_user = -1; // index into the user-map pools, -1 = the optimizer's own default map
    double tm_param = 1.0, sm_param = 1.0;
    int tm_kind = 0, sm_kind = 0;
    bool has_internal_ws = false;
    // the time-point overload rejects an empty vector before storing anything: the verdict is "invalid"
    // while the stored problem is still the previous one (checkValidity() speaks about the stored problem)
    bool rejected_early = false;
};

} // namespace optw
