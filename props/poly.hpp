// Piecewise-polynomial world: C03 (evaluation routes and hint histories),
// C11 (caches and copies, polynomial half) and C16 (rejection paths and at()).
// One interpreter, three generator profiles; every oracle is always active.
#pragma once
#include "common.hpp"

namespace polyw
{
using namespace simx;

enum
{
    OP_EVAL, OP_EVAL_ENUM, OP_EVAL_HINT, OP_HINT_CORRUPT, OP_EVAL_BATCH, OP_SEG_EVAL, OP_SEG_META,
    OP_DERIV, OP_UPDATE, OP_COPY, OP_ASSIGN, OP_DESTROY, OP_BAD_INIT, OP_AT, OP_DERIV_KEEP, OP_SELF_ASSIGN,
    OP_HINT_SWEEP, OP_RESPLIT, OP_N
};
static const char *const kNames[] = {"eval", "eval_enum", "eval_hint", "hint_corrupt", "eval_batch", "seg_eval", "seg_meta",
                                     "deriv", "update", "copy", "assign", "destroy", "bad_init", "at", "deriv_keep", "self_assign",
                                     "hint_sweep", "resplit"};

static const int kHandles = 4;
static const int kHints = 2;

inline std::vector<double> gen_breaks(uint64_t seed, int S, int mode)
{
    Rng r(seed, 0xb4);
    std::vector<double> b(S + 1);
    // start: anywhere, exactly zero, or negative such that t = 0 falls somewhere inside the range
    const int style = ((mode % 5) + 5) % 5;
    const bool near_zero = ((mode / 5) & 1) != 0;
    b[0] = near_zero ? (r.chance(0.5) ? 0.0 : -r.real(0.0, 0.75 * S)) : r.real(-1000.0, 1000.0);
    if (style == 4)
    {
        // a regular grid: all pieces equally wide (exactly, or up to rounding of start + i*step)
        double step = r.chance(0.5) ? 0.25 * (double)r.range(1, 8) : r.real(0.05, 2.0);
        bool by_product = r.chance(0.5);
        for (int i = 0; i < S; ++i)
        {
            double nb = by_product ? b[0] + (double)(i + 1) * step : b[i] + step;
            if (!(nb > b[i])) nb = std::nextafter(b[i], INFINITY);
            b[i + 1] = nb;
        }
        return b;
    }
    for (int i = 0; i < S; ++i)
    {
        double w;
        switch (style)
        {
        case 0: w = r.real(0.1, 2.0); break;
        case 1: w = r.logreal(1e-3, 10.0); break;
        case 2:
            if (r.chance(0.35))
            {
                // a segment only a few ulps wide
                double x = b[i];
                int k = (int)r.range(1, 4);
                for (int q = 0; q < k; ++q) x = std::nextafter(x, INFINITY);
                w = x - b[i];
            }
            else
                w = r.real(0.2, 1.5);
            break;
        default: w = r.logreal(1e-6, 1e3); break;
        }
        double nb = b[i] + w;
        if (!(nb > b[i])) nb = std::nextafter(b[i], INFINITY);
        b[i + 1] = nb;
    }
    return b;
}

// long-double evaluation by definition
template <class Mat>
inline void ref_eval(const std::vector<double> &b, const Mat &C, int nc, double t, int k, int &piece,
                     std::vector<long double> &val, std::vector<long double> &mag)
{
    const int S = (int)b.size() - 1;
    const int D = (int)C.cols();
    int idx;
    if (t < b[0]) idx = 0;
    else if (t >= b[S]) idx = S - 1;
    else
    {
        idx = 0;
        while (!(b[idx] <= t && t < b[idx + 1])) ++idx;
    }
    piece = idx;
    val.assign(D, 0.0L);
    mag.assign(D, 0.0L);
    if (k >= nc || k < 0) return;
    long double dt = (long double)t - (long double)b[idx];
    for (int j = k; j < nc; ++j)
    {
        long double ff = 1.0L;
        for (int q = 0; q < k; ++q) ff *= (long double)(j - q);
        long double pw = 1.0L;
        for (int q = 0; q < j - k; ++q) pw *= dt;
        for (int d = 0; d < D; ++d)
        {
            long double term = ff * (long double)C(idx * nc + j, d) * pw;
            val[d] += term;
            mag[d] += fabsl(term);
        }
    }
}

template <class Poly>
struct World
{
    using Mat = typename Poly::MatrixType;
    using Vec = typename Poly::VectorType;
    static constexpr int D = Vec::RowsAtCompileTime;

    struct Model
    {
        bool init = false;
        std::vector<double> b;
        Mat C;
        int nc = 0;
        int S() const { return init ? (int)b.size() - 1 : 0; }
    };
    struct Handle
    {
        std::unique_ptr<Poly> p;
        Model m;
    };

    RunCtx &ctx;
    int max_nc;      // largest coefficient count the type accepts (12 for dynamic)
    bool fixed;
    Handle h[kHandles];
    int hint[kHints];
    int twin_every;
    uint64_t evals = 0;

    World(RunCtx &c, int max_nc_, bool fixed_, int twin_every_) : ctx(c), max_nc(max_nc_), fixed(fixed_), twin_every(twin_every_)
    {
        hint[0] = hint[1] = 0;
    }

    static Mat gen_coeffs(uint64_t seed, int S, int nc)
    {
        Rng r(seed, 0xc0);
        Mat C(S * nc, D);
        for (int i = 0; i < S * nc; ++i)
            for (int d = 0; d < D; ++d) C(i, d) = r.real(-2.0, 2.0);
        // make the pieces unmistakable
        for (int s = 0; s < S; ++s)
            for (int d = 0; d < D; ++d) C(s * nc, d) += 4.0 * (s + 1);
        return C;
    }

    double pick_time(const Model &m, int tm, int64_t idx, double frac) const
    {
        const int S = m.S();
        const std::vector<double> &b = m.b;
        frac = std::fabs(frac);
        frac -= std::floor(frac);
        double span = b[S] - b[0];
        switch (((tm % 8) + 8) % 8)
        {
        case 7:
        {
            // "round" times a caller is likely to pass and an implementation is likely to use as a sentinel
            static const double special[] = {0.0, -0.0, 1.0, -1.0, 0.5, 2.0};
            return special[(size_t)(((idx % 6) + 6) % 6)];
        }
        case 0: return b[((idx % (S + 1)) + (S + 1)) % (S + 1)];
        case 1: return std::nextafter(b[((idx % (S + 1)) + (S + 1)) % (S + 1)], -INFINITY);
        case 2: return std::nextafter(b[((idx % (S + 1)) + (S + 1)) % (S + 1)], INFINITY);
        case 3:
        {
            int i = (int)(((idx % S) + S) % S);
            double t = b[i] + frac * (b[i + 1] - b[i]);
            if (!(t < b[i + 1])) t = b[i];
            return t;
        }
        case 4: return b[0] - frac * span - 1e-9;
        case 5: return b[S] + frac * span;
        default: return ((idx & 1) ? -1.0 : 1.0) * 1e6 * (1.0 + frac);
        }
    }

    void classify_time(const Model &m, double t)
    {
        const int S = m.S();
        if (t < m.b[0]) ctx.count("probe.t_before_front");
        else if (t >= m.b[S]) ctx.count("probe.t_at_or_after_back");
        else
        {
            for (int i = 0; i <= S; ++i)
                if (t == m.b[i]) { ctx.count("probe.t_on_breakpoint"); return; }
            ctx.count("probe.t_interior");
        }
    }

    // compare a library value with the definition; returns the reference piece
    int check_value(const Model &m, double t, int k, const Vec &got, const char *route)
    {
        int piece;
        std::vector<long double> val, mag;
        ref_eval(m.b, m.C, m.nc, t, k, piece, val, mag);
        for (int d = 0; d < D; ++d)
        {
            long double tol = 1e-12L * mag[d] + 1e-300L;
            long double err = fabsl((long double)got(d) - val[d]);
            SIM_CHECK(err <= tol || (k >= m.nc && got(d) == 0.0), "value_vs_definition",
                      route << ": t=" << fmt_double(t) << " k=" << k << " nc=" << m.nc << " S=" << m.S() << " dim " << d << " got "
                            << got(d) << " expected " << (double)val[d] << " (piece " << piece << ")");
        }
        if (k >= m.nc)
            for (int d = 0; d < D; ++d)
                SIM_CHECK(got(d) == 0.0, "zero_above_degree", route << ": k=" << k << " >= coefficients " << m.nc << " but value " << got(d));
        log_matrix(ctx, got);
        return piece;
    }

    void check_same(const Vec &a, const Vec &b, const char *ra, const char *rb, double t, int k)
    {
        SIM_CHECK(bitwise_equal(a, b), "route_mismatch",
                  ra << " vs " << rb << " at t=" << fmt_double(t) << " k=" << k << ": " << show(a) << " != " << show(b));
    }

    // the central check: plain evaluation against the definition and (sampled) a fresh twin
    Vec eval_checked(Handle &H, double t, int k)
    {
        Vec v = H.p->evaluate(t, k);
        check_value(H.m, t, k, v, "plain");
        ++evals;
        if (twin_every > 0 && evals % (uint64_t)twin_every == 0)
        {
            Poly twin(H.m.b, H.m.C, H.m.nc);
            Vec w = twin.evaluate(t, k);
            SIM_CHECK(bitwise_equal(v, w), "stale_vs_fresh_twin",
                      "evaluate(t=" << fmt_double(t) << ",k=" << k << ") = " << show(v) << " but a fresh polynomial built from the latest data gives "
                                    << show(w));
            ctx.count("oracle.fresh_twin");
        }
        return v;
    }

    void check_meta(Handle &H)
    {
        const Poly &p = *H.p;
        const Model &m = H.m;
        SIM_CHECK(p.isInitialized() == m.init, "init_flag", "isInitialized()=" << p.isInitialized() << " model " << m.init);
        SIM_CHECK(p.getNumSegments() == m.S(), "num_segments", "getNumSegments()=" << p.getNumSegments() << " model " << m.S());
        if (m.init)
        {
            SIM_CHECK(p.getNumCoeffs() == m.nc, "num_coeffs", "getNumCoeffs()=" << p.getNumCoeffs() << " model " << m.nc);
            SIM_CHECK(bitwise_equal_vec(p.getBreakpoints(), m.b), "breakpoints", "breakpoints differ from the latest update");
            SIM_CHECK(bitwise_equal(p.getCoefficients(), m.C), "coefficients", "coefficients differ from the latest update");
            SIM_CHECK(same_bits(p.getStartTime(), m.b.front()) && same_bits(p.getEndTime(), m.b.back()), "time_range", "start/end time");
        }
    }

    bool live(int k) const { return (bool)h[k].p; }
    int pick_handle(int64_t v, bool need_init) const
    {
        for (int q = 0; q < kHandles; ++q)
        {
            int k = (int)((((v + q) % kHandles) + kHandles) % kHandles);
            if (h[k].p && (!need_init || h[k].m.init)) return k;
        }
        return -1;
    }

    void do_update(Handle &H, int S, int nc, uint64_t seed, int bmode, bool construct)
    {
        S = std::max(1, S);
        nc = std::min(std::max(1, nc), max_nc);
        Model m;
        m.init = true;
        m.b = gen_breaks(seed, S, bmode);
        m.C = gen_coeffs(seed, S, nc);
        m.nc = nc;
        if (construct || !H.p) { H.p.reset(new Poly(m.b, m.C, nc)); ctx.count("ops.construct"); }
        else
        {
            if (H.m.init)
            {
                if (H.m.S() != S) ctx.count("probe.update_segment_count_changed");
                if (H.m.nc != nc) ctx.count("probe.update_coeff_count_changed");
                if ((H.m.nc <= 8) != (nc <= 8)) ctx.count("probe.update_crossed_static_table_limit");
            }
            else ctx.count("probe.update_after_rejected_init");
            H.p->update(m.b, m.C, nc);
        }
        H.m = std::move(m);
        check_meta(H);
    }

    void run(const Plan &plan)
    {
        // initial population: handle 0 from the configuration
        {
            int S = (int)plan.CI(2, 3), nc = (int)plan.CI(1, 4);
            do_update(h[0], S, nc, (uint64_t)plan.CI(3, 1), (int)plan.CI(4, 0), true);
        }
        bool changed = false, queried_after_change = false;
        for (const Op &o : plan.ops)
        {
            const int kind = ((o.kind % OP_N) + OP_N) % OP_N;
            ctx.ev(kNames[kind]);
            ctx.count(std::string("ops.") + kNames[kind]);
            switch (kind)
            {
            case OP_EVAL:
            case OP_EVAL_ENUM:
            {
                int k = pick_handle(o.I(0), true);
                if (k < 0) break;
                Handle &H = h[k];
                double t = pick_time(H.m, (int)o.I(1), o.I(2), o.D(0));
                classify_time(H.m, t);
                int ord = (int)o.I(3);
                if (kind == OP_EVAL_ENUM && (o.I(3) & 64))
                {
                    // orders far beyond the named enumerators, through the enum overloads: still "order exceeds the degree"
                    static const int big[] = {7, 255, 256, 257, 1000, 65536, 65537, INT_MAX};
                    int kb = big[(size_t)(((o.I(2) % 8) + 8) % 8)];
                    if (kb >= H.m.nc)
                    {
                        Vec z = H.p->evaluate(t, static_cast<SplineTrajectory::Deriv>(kb));
                        check_same(z, eval_checked(H, t, kb), "enum(large order)", "plain", t, kb);
                        int hcopy = hint[0];
                        Vec zh = H.p->evaluate(t, &hcopy, static_cast<SplineTrajectory::Deriv>(kb));
                        check_same(zh, z, "hinted enum(large order)", "enum", t, kb);
                        Vec zs = (*H.p)[0].evaluate(0.0, static_cast<SplineTrajectory::Deriv>(kb));
                        for (int d = 0; d < D; ++d) SIM_CHECK(zs(d) == 0.0, "zero_above_degree", "Segment::evaluate(enum " << kb << ") is not zero");
                        ctx.count("probe.enum_order_beyond_enumerators");
                    }
                    break;
                }
                if (kind == OP_EVAL_ENUM)
                {
                    ord = ((ord % 7) + 7) % 7;
                    Vec a = H.p->evaluate(t, static_cast<SplineTrajectory::Deriv>(ord));
                    Vec b = eval_checked(H, t, ord);
                    check_same(a, b, "enum", "plain", t, ord);
                    if (ord == 0)
                    {
                        Vec c = H.p->evaluate(t);
                        check_same(c, b, "default-argument", "plain", t, 0);
                    }
                }
                else
                {
                    ord = ((ord % (H.m.nc + 3)) + (H.m.nc + 3)) % (H.m.nc + 3);
                    if (ord >= H.m.nc) ctx.count("probe.order_above_degree");
                    eval_checked(H, t, ord);
                }
                if (changed) queried_after_change = true;
                break;
            }
            case OP_EVAL_HINT:
            case OP_HINT_SWEEP:
            {
                int k = pick_handle(o.I(0), true);
                if (k < 0) break;
                Handle &H = h[k];
                int hv = (int)(((o.I(1) % kHints) + kHints) % kHints);
                int n = kind == OP_HINT_SWEEP ? 2 + (int)(((o.I(5) % 6) + 6) % 6) : 1;
                for (int q = 0; q < n; ++q)
                {
                    // a sweep walks forward through consecutive pieces (the use the hint is made for)
                    double t = pick_time(H.m, kind == OP_HINT_SWEEP ? 3 : (int)o.I(2), o.I(3) + q, o.D(0));
                    classify_time(H.m, t);
                    int ord = (int)o.I(4);
                    ord = ((ord % (H.m.nc + 2)) + (H.m.nc + 2)) % (H.m.nc + 2);
                    int before = hint[hv];
                    if (kind == OP_EVAL_HINT && (o.I(5) & 4))
                    {
                        // a caller without a cursor passes a null hint: the route must degrade to the plain one
                        Vec z = H.p->evaluate(t, static_cast<int *>(nullptr), ord);
                        check_same(z, eval_checked(H, t, ord), "hinted(null)", "plain", t, ord);
                        ctx.count("probe.null_hint");
                    }
                    Vec a = (ord <= 6 && (o.I(4) & 8)) ? H.p->evaluate(t, &hint[hv], static_cast<SplineTrajectory::Deriv>(ord))
                                                        : H.p->evaluate(t, &hint[hv], ord);
                    Vec b = eval_checked(H, t, ord);
                    check_same(a, b, "hinted", "plain", t, ord);
                    int piece;
                    std::vector<long double> val, mag;
                    ref_eval(H.m.b, H.m.C, H.m.nc, t, ord, piece, val, mag);
                    if (ord < H.m.nc)
                    {
                        SIM_CHECK(hint[hv] == piece, "hint_after_call",
                                  "hint was " << before << ", t=" << fmt_double(t) << " lies in piece " << piece << " of " << H.m.S()
                                              << " but the hint is now " << hint[hv]);
                        const int S = H.m.S();
                        if (before >= 0 && before < S && piece == before) ctx.count("probe.hint_same_piece");
                        else if (before >= 0 && (long)before + 1 < S && piece == before + 1) ctx.count("probe.hint_next_piece");
                        else ctx.count(S < 32 ? "probe.hint_fallback_linear" : "probe.hint_fallback_binary");
                        if (before < 0 || before >= S) ctx.count("probe.hint_out_of_range_used");
                    }
                    ctx.ival(hint[hv]);
                }
                if (changed) queried_after_change = true;
                break;
            }
            case OP_HINT_CORRUPT:
            {
                int hv = (int)(((o.I(0) % kHints) + kHints) % kHints);
                int k = pick_handle(o.I(2), true);
                int S = k >= 0 ? h[k].m.S() : 3;
                static const int kinds = 9;
                int v;
                switch ((int)(((o.I(1) % kinds) + kinds) % kinds))
                {
                case 0: v = -5; break;
                case 1: v = -1; break;
                case 2: v = 0; break;
                case 3: v = S - 1; break;
                case 4: v = S; break;
                case 5: v = S + 7; break;
                case 6: v = INT_MAX; break;
                case 7: v = INT_MIN; break;
                default: v = (int)(((o.I(3) % (S + 1)) + (S + 1)) % (S + 1)); break;
                }
                hint[hv] = v;
                ctx.count("fault.hint_corrupt");
                ctx.mark_nontrivial();
                ctx.ival(v);
                break;
            }
            case OP_EVAL_BATCH:
            {
                int k = pick_handle(o.I(0), true);
                if (k < 0) break;
                Handle &H = h[k];
                int n = (int)((((o.I(1) & 15) % 9) + 9) % 9);
                Rng r((uint64_t)o.I(2), 0xba);
                std::vector<double> ts;
                for (int q = 0; q < n; ++q)
                {
                    int tmq = (int)r.below(8);
                    int64_t iq = (int64_t)r.below(64);
                    double fq = r.unit();
                    ts.push_back(pick_time(H.m, tmq, iq, fq));
                }
                int ord = (int)(((o.I(3) % (H.m.nc + 2)) + (H.m.nc + 2)) % (H.m.nc + 2));
                // a batch may contain a sample without a defined time (missing data); the other samples must not notice.
                // (only below the binary-search threshold: see DESIGN s11.4 O5 for what a NaN time does to larger ones)
                if (n >= 2 && H.m.S() < 32 && (o.I(1) & 16)) { ts[(size_t)r.below((uint64_t)n)] = std::nan(""); ctx.count("probe.batch_with_nan_sample"); }
                auto res = (ord <= 6 && (o.I(3) & 16)) ? H.p->evaluate(ts, static_cast<SplineTrajectory::Deriv>(ord)) : H.p->evaluate(ts, ord);
                SIM_CHECK((int)res.size() == n, "batch_size", "batch of " << n << " times returned " << res.size() << " values");
                for (int q = 0; q < n; ++q)
                {
                    if (std::isnan(ts[q])) continue;
                    Vec b = eval_checked(H, ts[q], ord);
                    check_same(res[q], b, "batch", "plain", ts[q], ord);
                }
                break;
            }
            case OP_SEG_EVAL:
            case OP_SEG_META:
            {
                int k = pick_handle(o.I(0), true);
                if (k < 0) break;
                Handle &H = h[k];
                const int S = H.m.S();
                int i = (int)(((o.I(2) % S) + S) % S);
                int via = (int)(((o.I(1) % 4) + 4) % 4);
                auto seg = via == 0 ? (*H.p)[i] : via == 1 ? H.p->at(i) : via == 2 ? *(H.p->begin() + i) : *[&]() {
                    auto it = H.p->begin();
                    for (int q = 0; q < i; ++q) ++it;
                    return it;
                }();
                SIM_CHECK(seg.index() == i, "segment_index", "segment reached via route " << via << " reports index " << seg.index() << " instead of " << i);
                SIM_CHECK(same_bits(seg.startTime(), H.m.b[i]) && same_bits(seg.endTime(), H.m.b[i + 1]) && same_bits(seg.duration(), H.m.b[i + 1] - H.m.b[i]),
                          "segment_times", "segment " << i << " start/end/duration disagree with the breakpoints");
                if (kind == OP_SEG_META)
                {
                    Mat blk = seg.getCoeffs();
                    Mat want = H.m.C.block(i * H.m.nc, 0, H.m.nc, D);
                    SIM_CHECK(bitwise_equal(blk, want), "segment_coeffs", "getCoeffs() of segment " << i << " is not the block of the latest coefficients");
                    SIM_CHECK((H.p->end() - H.p->begin()) == S, "iterator_range", "end()-begin() = " << (H.p->end() - H.p->begin()) << " != " << S);
                    int cnt = 0;
                    for (auto it = H.p->begin(); it != H.p->end(); ++it, ++cnt)
                        SIM_CHECK(it->index() == cnt, "iterator_order", "iteration yields index " << it->index() << " at position " << cnt);
                    SIM_CHECK(cnt == S, "iterator_count", "iteration visited " << cnt << " segments of " << S);
                    // the rest of the iterator interface: arithmetic, decrement, comparison, arrow
                    {
                        auto b0 = H.p->begin(), e0 = H.p->end();
                        auto it = b0 + i;
                        SIM_CHECK((it - b0) == i && it == (b0 + i) && !(it != (b0 + i)), "iterator_arithmetic", "begin()+i / difference / comparison disagree for i=" << i);
                        SIM_CHECK((*it).index() == i && it->index() == i, "iterator_deref", "*(begin()+i) or -> does not reach segment " << i);
                        auto post = it++;
                        SIM_CHECK(post->index() == i && (it - b0) == i + 1, "iterator_increment", "post-increment");
                        auto pre = --it;
                        SIM_CHECK(pre->index() == i && it->index() == i, "iterator_decrement", "pre-decrement");
                        if (i > 0)
                        {
                            auto pd = it--;
                            SIM_CHECK(pd->index() == i && it->index() == i - 1, "iterator_decrement", "post-decrement");
                            ++it;
                        }
                        SIM_CHECK((e0 - it) == S - i && (it == e0) == false, "iterator_arithmetic", "end()-it");
                        SIM_CHECK(same_bits(it->startTime(), H.m.b[i]) && same_bits((*it).endTime(), H.m.b[i + 1]), "iterator_deref", "segment times through an iterator");
                        double tq = pick_time(H.m, 3, i, 0.5);
                        check_same(it->evaluate(tq - H.m.b[i], 0), eval_checked(H, tq, 0), "iterator->evaluate", "plain", tq, 0);
                    }
                    break;
                }
                // local-time evaluation must equal global evaluation inside the piece
                double t = pick_time(H.m, 3, i, o.D(0));
                if ((o.I(3) & 3) == 1) t = H.m.b[i];
                int ord = (int)(((o.I(4) % (H.m.nc + 2)) + (H.m.nc + 2)) % (H.m.nc + 2));
                double tau = t - H.m.b[i];
                Vec a = (ord <= 6 && (o.I(4) & 8)) ? seg.evaluate(tau, static_cast<SplineTrajectory::Deriv>(ord)) : seg.evaluate(tau, ord);
                Vec b = eval_checked(H, t, ord);
                check_same(a, b, "segment-local", "plain", t, ord);
                if (ord == 0)
                {
                    Vec c = seg.evaluate(tau);
                    check_same(c, b, "segment-local default", "plain", t, 0);
                }
                // left limit at the end of the piece: the piece's own polynomial, not the next one
                if ((o.I(3) & 4) && i + 1 < S)
                {
                    Vec e = seg.evaluate(seg.duration(), ord);
                    int piece;
                    std::vector<long double> val, mag;
                    // definition with the piece forced to i
                    std::vector<double> bb(H.m.b.begin() + i, H.m.b.begin() + i + 2);
                    Mat cc = H.m.C.block(i * H.m.nc, 0, H.m.nc, D);
                    ref_eval(std::vector<double>{bb[0], INFINITY}, cc, H.m.nc, bb[1], ord, piece, val, mag);
                    for (int d = 0; d < D; ++d)
                        SIM_CHECK(fabsl((long double)e(d) - val[d]) <= 1e-12L * mag[d] + 1e-300L, "segment_left_limit",
                                  "segment " << i << " evaluated at its duration: " << e(d) << " expected " << (double)val[d]);
                }
                break;
            }
            case OP_DERIV:
            {
                int k = pick_handle(o.I(0), true);
                if (k < 0) break;
                Handle &H = h[k];
                int dk = (int)(((o.I(1) % (H.m.nc + 2)) + (H.m.nc + 2)) % (H.m.nc + 2));
                double t = pick_time(H.m, (int)o.I(2), o.I(3), o.D(0));
                Poly dp = (dk == 1 && (o.I(1) & 32)) ? H.p->derivative() : H.p->derivative(dk);
                SIM_CHECK(dp.isInitialized() && dp.getNumSegments() == H.m.S(), "derivative_shape", "derivative(" << dk << ") not initialised on the same pieces");
                SIM_CHECK(bitwise_equal_vec(dp.getBreakpoints(), H.m.b), "derivative_breakpoints", "derivative trajectory has other breakpoints");
                SIM_CHECK(dp.getNumCoeffs() == std::max(1, H.m.nc - dk), "derivative_num_coeffs", "derivative(" << dk << ") of " << H.m.nc << " coefficients has " << dp.getNumCoeffs());
                int j = (int)(((o.I(4) % 3) + 3) % 3);
                Vec a = dp.evaluate(t, j);
                Vec b = eval_checked(H, t, dk + j);
                // order 0 on the derivative trajectory is the same arithmetic -> identical bits; a further
                // derivative multiplies the factors in another order and is compared with the definition only
                if (j == 0) check_same(a, b, "derivative-trajectory", "plain", t, dk);
                else check_value(H.m, t, dk + j, a, "derivative-trajectory");
                if (dk >= H.m.nc) ctx.count("probe.derivative_above_degree");
                if ((o.I(4) & 4) && dk < H.m.nc)
                {
                    // the derivative of a derivative trajectory: compared with the definition (other arithmetic route)
                    int d2 = 1 + (int)((o.I(3) & 1));
                    Poly ddp = dp.derivative(d2);
                    SIM_CHECK(ddp.isInitialized() && ddp.getNumSegments() == H.m.S() && ddp.getNumCoeffs() == std::max(1, H.m.nc - dk - d2), "derivative_shape",
                              "derivative(" << d2 << ") of derivative(" << dk << ") has " << ddp.getNumCoeffs() << " coefficients, source " << H.m.nc);
                    check_value(H.m, t, dk + d2, ddp.evaluate(t, 0), "derivative-of-derivative");
                    ctx.count("probe.derivative_of_derivative");
                }
                break;
            }
            case OP_DERIV_KEEP:
            {
                int k = pick_handle(o.I(0), true);
                if (k < 0) break;
                int dst = (int)(((o.I(1) % kHandles) + kHandles) % kHandles);
                if (dst == k) dst = (dst + 1) % kHandles;
                Handle &H = h[k];
                int dk = (int)(((o.I(2) % H.m.nc) + H.m.nc) % H.m.nc);
                Model m;
                m.init = true;
                m.b = H.m.b;
                m.nc = H.m.nc - dk;
                m.C.resize(H.m.S() * m.nc, D);
                for (int s = 0; s < H.m.S(); ++s)
                    for (int q = 0; q < m.nc; ++q)
                    {
                        double ff = 1.0;
                        for (int z = 0; z < dk; ++z) ff *= (double)(q + dk - z);
                        m.C.row(s * m.nc + q) = ff * H.m.C.row(s * H.m.nc + q + dk);
                    }
                h[dst].p.reset(new Poly(H.p->derivative(dk)));
                h[dst].m = std::move(m);
                // the model's coefficients are the mathematically exact products; the library's must match bitwise
                SIM_CHECK(bitwise_equal(h[dst].p->getCoefficients(), h[dst].m.C), "derivative_coefficients",
                          "derivative(" << dk << ") coefficients are not factor*coefficient");
                check_meta(h[dst]);
                changed = true;
                break;
            }
            case OP_UPDATE:
            {
                int k = (int)(((o.I(0) % kHandles) + kHandles) % kHandles);
                do_update(h[k], (int)o.I(1), (int)o.I(2), (uint64_t)o.I(3), (int)o.I(4), (o.I(5) & 1) != 0);
                changed = true;
                ctx.mark_nontrivial();
                break;
            }
            case OP_RESPLIT:
            {
                // update with the SAME stacked coefficient matrix cut into segments differently (S*nc = S'*nc'),
                // or with exactly the same arguments again
                int k = pick_handle(o.I(0), true);
                if (k < 0) break;
                Handle &H = h[k];
                (void)H.p->evaluate(H.m.b[0], (int)(((o.I(4) % H.m.nc) + H.m.nc) % H.m.nc)); // make sure caches exist
                const int R = H.m.S() * H.m.nc;
                std::vector<int> ncs;
                for (int c = 1; c <= std::min(R, max_nc); ++c)
                    if (R % c == 0 && c != H.m.nc) ncs.push_back(c);
                Model m;
                m.init = true;
                m.C = H.m.C;
                if ((o.I(1) & 7) == 2 || (o.I(1) & 7) == 3)
                {
                    // same shape, same breakpoints; only the coefficient blocks of a sub-range of segments change.
                    // Two (variant 3: many) such updates follow each other WITHOUT an evaluation in between.
                    Rng rr((uint64_t)o.I(2), 0x9a);
                    static const int bursts[] = {2, 3, 255, 256, 257, 512};
                    int reps = (o.I(1) & 7) == 2 ? 2 : bursts[(size_t)rr.below(6)];
                    Model mm = H.m;
                    for (int rep = 0; rep < reps; ++rep)
                    {
                        int S0 = mm.S();
                        int lo = (int)rr.below((uint64_t)S0), hi = lo + (int)rr.below((uint64_t)(S0 - lo)) ;
                        for (int sg = lo; sg <= hi; ++sg)
                            for (int q = 0; q < mm.nc; ++q)
                                for (int d = 0; d < D; ++d) mm.C(sg * mm.nc + q, d) = rr.real(-2.0, 2.0) + (q == 0 ? 4.0 * (sg + 1) : 0.0);
                        H.p->update(mm.b, mm.C, mm.nc);
                    }
                    H.m = std::move(mm);
                    check_meta(H);
                    ctx.count(reps > 3 ? "probe.update_burst_without_evaluation" : "probe.partial_updates_without_evaluation");
                    changed = true;
                    ctx.mark_nontrivial();
                    // every piece is looked at afterwards
                    for (int sg = 0; sg < H.m.S(); ++sg) eval_checked(H, pick_time(H.m, 3, sg, 0.5), 1 % H.m.nc);
                    break;
                }
                if ((o.I(1) & 7) == 1)
                {
                    // the caller passes the object's own members back in (arguments alias the state being replaced)
                    H.p->update(H.p->getBreakpoints(), H.p->getCoefficients(), H.p->getNumCoeffs());
                    check_meta(H);
                    ctx.count("probe.update_with_aliased_arguments");
                    changed = true;
                    break;
                }
                if (ncs.empty() || (o.I(1) & 7) == 0) { m.nc = H.m.nc; m.b = H.m.b; ctx.count("probe.update_with_identical_arguments"); }
                else
                {
                    m.nc = ncs[(size_t)(((o.I(1) % (int64_t)ncs.size()) + (int64_t)ncs.size()) % (int64_t)ncs.size())];
                    m.b = gen_breaks((uint64_t)o.I(2), R / m.nc, (int)o.I(3));
                    ctx.count("probe.update_same_matrix_other_split");
                }
                H.p->update(m.b, m.C, m.nc);
                H.m = std::move(m);
                check_meta(H);
                changed = true;
                ctx.mark_nontrivial();
                break;
            }
            case OP_COPY:
            case OP_ASSIGN:
            {
                int s = pick_handle(o.I(0), false);
                if (s < 0) break;
                int dst = (int)(((o.I(1) % kHandles) + kHandles) % kHandles);
                if (dst == s) dst = (dst + 1) % kHandles;
                if (kind == OP_COPY && (o.I(2) & 3) == 3 && h[s].m.init)
                {
                    // move construction: the source is left in a valid but unspecified state and is not used again
                    h[dst].p.reset(new Poly(std::move(*h[s].p)));
                    h[dst].m = h[s].m;
                    h[s].p.reset();
                    h[s].m = Model();
                    check_meta(h[dst]);
                    ctx.count("probe.move_constructed");
                    changed = true;
                    ctx.mark_nontrivial();
                    break;
                }
                if (kind == OP_COPY || !h[dst].p)
                {
                    h[dst].p.reset(new Poly(*h[s].p));
                    ctx.count("probe.copy_constructed");
                }
                else
                {
                    *h[dst].p = *h[s].p;
                    ctx.count("probe.assigned_over_existing");
                }
                h[dst].m = h[s].m;
                check_meta(h[dst]);
                changed = true;
                ctx.mark_nontrivial();
                break;
            }
            case OP_SELF_ASSIGN:
            {
                int s = pick_handle(o.I(0), false);
                if (s < 0) break;
                Poly &p = *h[s].p;
                Poly *alias = &p;
                p = *alias;
                check_meta(h[s]);
                break;
            }
            case OP_DESTROY:
            {
                int live_n = 0;
                for (int q = 0; q < kHandles; ++q) live_n += h[q].p ? 1 : 0;
                int k = pick_handle(o.I(0), false);
                if (k < 0 || live_n <= 1) break;
                h[k].p.reset();
                h[k].m = Model();
                ctx.count("fault.src_destroy");
                ctx.mark_nontrivial();
                break;
            }
            case OP_BAD_INIT:
            {
                int k = (int)(((o.I(0) % kHandles) + kHandles) % kHandles);
                int S = 1 + (int)(((o.I(2) % 5) + 5) % 5);
                int nc = 1 + (int)(((o.I(3) % max_nc) + max_nc) % max_nc);
                std::vector<double> b = gen_breaks((uint64_t)o.I(4), S, 0);
                Mat C = gen_coeffs((uint64_t)o.I(4), S, nc);
                int nkinds = fixed ? 6 : 5;
                int fk = (int)(((o.I(1) % nkinds) + nkinds) % nkinds);
                const char *what = "";
                switch (fk)
                {
                case 0: b.clear(); what = "no_breakpoints"; break;
                case 1: b.resize(1); what = "one_breakpoint"; break;
                case 2: C.conservativeResize(C.rows() + 1, D); C.row(C.rows() - 1).setZero(); what = "one_row_too_many"; break;
                case 3: if (C.rows() > 0) C.conservativeResize(C.rows() - 1, D); what = "one_row_too_few"; break;
                case 4:
                {
                    // a declared coefficient count so large that segments*count does not fit 32 bits; the rows cannot match
                    static const int huge[] = {1 << 30, (1 << 30) + 1, INT_MAX, 1 << 29};
                    nc = huge[(size_t)(((o.I(3) % 4) + 4) % 4)];
                    S = 4;
                    b = gen_breaks((uint64_t)o.I(4), S, 0);
                    C.resize((o.I(3) & 4) ? 4 : 0, D);
                    C.setZero();
                    what = "huge_coeff_count";
                    break;
                }
                default: nc = max_nc + 1 + (int)(((o.I(3) % 3) + 3) % 3); C = gen_coeffs((uint64_t)o.I(4), S, nc); what = "too_many_coeffs_for_fixed_order"; break;
                }
                // (non-positive coefficient counts are not generated: the statement does not cover them)
                ctx.count(std::string("fault.bad_init.") + what);
                ctx.mark_nontrivial();
                bool construct = !h[k].p || (o.I(5) & 1);
                if (construct) h[k].p.reset(new Poly(b, C, nc));
                else h[k].p->update(b, C, nc);
                h[k].m = Model();
                check_meta(h[k]);
                for (int i : {0, -1, 1, INT_MAX, INT_MIN})
                {
                    bool threw = false;
                    try { (void)h[k].p->at(i); }
                    catch (const std::out_of_range &) { threw = true; }
                    SIM_CHECK(threw, "at_bounds", "at(" << i << ") on a rejected polynomial did not throw");
                }
                changed = true;
                break;
            }
            case OP_AT:
            {
                int k = pick_handle(o.I(0), false);
                if (k < 0) break;
                Handle &H = h[k];
                const int S = H.m.S();
                int64_t sel = ((o.I(1) % 12) + 12) % 12;
                int i;
                switch (sel)
                {
                case 0: i = -3; break;
                case 1: i = -1; break;
                case 2: i = 0; break;
                case 3: i = S - 1; break;
                case 4: i = S; break;
                case 5: i = S + 1; break;
                case 6: i = S + 3; break;
                case 7: i = INT_MAX; break;
                case 8: i = INT_MIN; break;
                default: i = (int)(((o.I(2) % (S + 4)) + (S + 4)) % (S + 4)) - 2; break;
                }
                bool threw = false;
                try { (void)H.p->at(i); }
                catch (const std::out_of_range &) { threw = true; }
                bool should = !(i >= 0 && i < S);
                SIM_CHECK(threw == should, "at_bounds", "at(" << i << ") with " << S << " segments " << (threw ? "threw" : "did not throw"));
                ctx.count(should ? "probe.at_outside" : "probe.at_inside");
                ctx.ival(threw);
                break;
            }
            }
        }
        if (changed && queried_after_change) ctx.mark_nontrivial();
        // final sweep: every live handle still equals its model
        for (int k = 0; k < kHandles; ++k)
        {
            if (!h[k].p) continue;
            check_meta(h[k]);
            if (!h[k].m.init) continue;
            for (int ord = 0; ord < std::min(h[k].m.nc + 1, 4); ++ord)
            {
                double t = pick_time(h[k].m, 3, ord, 0.37);
                Vec v = h[k].p->evaluate(t, ord);
                check_value(h[k].m, t, ord, v, "final");
                Poly twin(h[k].m.b, h[k].m.C, h[k].m.nc);
                SIM_CHECK(bitwise_equal(v, twin.evaluate(t, ord)), "stale_vs_fresh_twin", "final sweep: handle " << k << " order " << ord << " differs from a fresh polynomial");
            }
        }
    }
};

// ----------------------------------------------------------- generators ----
// profile: 0 = C03 (routes/hints), 1 = C11 (caches/copies), 2 = C16 (rejection/at)
inline Plan gen_plan(uint64_t seed, uint64_t index, Tier tier, int profile, int ntypes)
{
    Rng r(seed, 0x90 + profile);
    Plan p;
    int type = (int)r.below(ntypes); // 0 dyn, 1 fix4, 2 fix6, 3 fix8
    static const int limits[] = {12, 4, 6, 8};
    int max_nc = limits[type];
    static const std::vector<int> sizes = {1, 2, 3, 5, 31, 32, 33, 40, 64, 127, 128, 129, 200};
    auto pick_S = [&]() { return r.chance(0.6) ? (int)r.range(1, 6) : sizes[r.below(sizes.size())]; };
    auto pick_nc = [&]() {
        if (type == 0 && r.chance(0.5)) return (int)r.range(7, 10); // straddle the static table limit of 8
        return (int)r.range(1, max_nc);
    };
    p.ci = {type, pick_nc(), pick_S(), (int64_t)r.below(1u << 30), (int64_t)r.below(10), 0};
    if (type == 0 && r.chance(0.1))
    {
        // well beyond the range the statement enumerates: up to 30 coefficients per piece (factorials above 2^53)
        p.ci[5] = 1;
        max_nc = 30;
        p.ci[1] = r.range(20, 30);
    }
    int nops = (int)r.range(4, tier == Tier::Thorough ? 60 : 40);
    // swarm: enable a random subset of fault kinds for this run
    bool f_hint = r.chance(0.7), f_update = r.chance(profile == 1 ? 0.95 : 0.4), f_copy = r.chance(profile == 1 ? 0.9 : 0.2),
         f_bad = r.chance(profile == 2 ? 0.95 : (profile == 1 ? 0.4 : 0.05)), f_destroy = r.chance(profile == 1 ? 0.6 : 0.1);
    std::vector<int> bag;
    auto add = [&](int k, int w) { for (int q = 0; q < w; ++q) bag.push_back(k); };
    if (profile == 0)
    {
        add(OP_EVAL, 4); add(OP_EVAL_ENUM, 2); add(OP_EVAL_HINT, 8); add(OP_HINT_SWEEP, 3); add(OP_EVAL_BATCH, 2);
        add(OP_SEG_EVAL, 4); add(OP_SEG_META, 1); add(OP_DERIV, 4);
        if (f_hint) add(OP_HINT_CORRUPT, 4);
        if (f_update) { add(OP_UPDATE, 2); add(OP_RESPLIT, 1); }
        if (f_copy) { add(OP_COPY, 1); add(OP_ASSIGN, 1); }
        if (f_bad) add(OP_BAD_INIT, 1);
    }
    else if (profile == 1)
    {
        add(OP_EVAL, 8); add(OP_EVAL_ENUM, 1); add(OP_EVAL_HINT, 2); add(OP_SEG_EVAL, 2); add(OP_DERIV, 3); add(OP_SEG_META, 1);
        if (f_update) { add(OP_UPDATE, 6); add(OP_RESPLIT, 2); }
        if (f_copy) { add(OP_COPY, 3); add(OP_ASSIGN, 4); add(OP_SELF_ASSIGN, 1); add(OP_DERIV_KEEP, 2); }
        if (f_destroy) add(OP_DESTROY, 2);
        if (f_bad) add(OP_BAD_INIT, 2);
        if (f_hint) add(OP_HINT_CORRUPT, 1);
    }
    else
    {
        add(OP_AT, 8); add(OP_EVAL, 2); add(OP_SEG_META, 1); add(OP_UPDATE, 3);
        if (f_bad) add(OP_BAD_INIT, 6);
        if (f_copy) { add(OP_COPY, 1); add(OP_ASSIGN, 1); }
    }
    for (int q = 0; q < nops; ++q)
    {
        Op o;
        o.kind = bag[r.below(bag.size())];
        switch (o.kind)
        {
        case OP_EVAL: case OP_EVAL_ENUM:
            o.i = {(int64_t)r.below(kHandles), (int64_t)r.below(8), (int64_t)r.below(64), (int64_t)r.below(16) | (r.chance(0.1) ? 64 : 0)};
            o.d = {r.unit()};
            break;
        case OP_EVAL_HINT: case OP_HINT_SWEEP:
            o.i = {(int64_t)r.below(kHandles), (int64_t)r.below(kHints), (int64_t)r.below(8), (int64_t)r.below(64), (int64_t)r.below(32), (int64_t)r.below(6)};
            o.d = {r.unit()};
            break;
        case OP_HINT_CORRUPT: o.i = {(int64_t)r.below(kHints), (int64_t)r.below(9), (int64_t)r.below(kHandles), (int64_t)r.below(64)}; break;
        case OP_EVAL_BATCH: o.i = {(int64_t)r.below(kHandles), (int64_t)r.below(9) | (r.chance(0.15) ? 16 : 0), (int64_t)r.below(1u << 30), (int64_t)r.below(32)}; break;
        case OP_SEG_EVAL: case OP_SEG_META:
            o.i = {(int64_t)r.below(kHandles), (int64_t)r.below(4), (int64_t)r.below(64), (int64_t)r.below(8), (int64_t)r.below(32)};
            o.d = {r.unit()};
            break;
        case OP_DERIV:
            o.i = {(int64_t)r.below(kHandles), (int64_t)r.below(64), (int64_t)r.below(8), (int64_t)r.below(64), (int64_t)r.below(8)};
            o.d = {r.unit()};
            break;
        case OP_DERIV_KEEP: o.i = {(int64_t)r.below(kHandles), (int64_t)r.below(kHandles), (int64_t)r.below(12)}; break;
        case OP_UPDATE:
            // mostly the handle that is being evaluated; same or different sizes
            o.i = {r.chance(0.7) ? 0 : (int64_t)r.below(kHandles), r.chance(0.3) ? p.ci[2] : (int64_t)pick_S(), r.chance(0.3) ? p.ci[1] : (int64_t)pick_nc(),
                   (int64_t)r.below(1u << 30), (int64_t)r.below(10), r.chance(0.15) ? 1 : 0};
            break;
        case OP_COPY: case OP_ASSIGN: o.i = {(int64_t)r.below(kHandles), (int64_t)r.below(kHandles), (int64_t)r.below(8)}; break;
        case OP_RESPLIT: o.i = {r.chance(0.7) ? 0 : (int64_t)r.below(kHandles), (int64_t)r.below(64), (int64_t)r.below(1u << 30), (int64_t)r.below(10), (int64_t)r.below(12)}; break;
        case OP_DESTROY: case OP_SELF_ASSIGN: o.i = {(int64_t)r.below(kHandles)}; break;
        case OP_BAD_INIT:
            o.i = {r.chance(0.7) ? 0 : (int64_t)r.below(kHandles), (int64_t)r.below(6), (int64_t)r.below(5), (int64_t)r.below(12), (int64_t)r.below(1u << 30), (int64_t)r.below(2)};
            break;
        case OP_AT: o.i = {(int64_t)r.below(kHandles), (int64_t)r.below(12), (int64_t)r.below(64)}; break;
        }
        p.ops.push_back(std::move(o));
        // a fault is always followed by work on the state it touched
        int last = p.ops.back().kind;
        if (last == OP_UPDATE || last == OP_RESPLIT || last == OP_BAD_INIT || last == OP_ASSIGN || last == OP_COPY || last == OP_HINT_CORRUPT)
        {
            Op f;
            f.kind = (last == OP_HINT_CORRUPT) ? OP_EVAL_HINT : (last == OP_BAD_INIT ? OP_UPDATE : OP_EVAL);
            if (f.kind == OP_EVAL) { f.i = {(last == OP_UPDATE || last == OP_RESPLIT) ? p.ops.back().i[0] : p.ops.back().i[1], (int64_t)r.below(8), (int64_t)r.below(64), (int64_t)r.below(16)}; f.d = {r.unit()}; }
            else if (f.kind == OP_EVAL_HINT) { f.i = {(int64_t)r.below(kHandles), p.ops.back().i[0], (int64_t)r.below(8), (int64_t)r.below(64), (int64_t)r.below(32), 0}; f.d = {r.unit()}; }
            else { f.i = {p.ops.back().i[0], (int64_t)pick_S(), (int64_t)pick_nc(), (int64_t)r.below(1u << 30), (int64_t)r.below(10), 0}; }
            p.ops.push_back(std::move(f));
        }
    }
    return p;
}

template <int DIM>
inline void exec_plan(const Plan &plan, RunCtx &ctx)
{
    int type = (int)(((plan.CI(0) % 4) + 4) % 4);
    int twin_every = plan.prop == "C11" ? 1 : 3;
    switch (type)
    {
    case 0: { World<SplineTrajectory::PPolyND<DIM, Eigen::Dynamic>> w(ctx, plan.CI(5) ? 30 : 12, false, twin_every); w.run(plan); break; }
    case 1: { World<SplineTrajectory::PPolyND<DIM, 4>> w(ctx, 4, true, twin_every); w.run(plan); break; }
    case 2: { World<SplineTrajectory::PPolyND<DIM, 6>> w(ctx, 6, true, twin_every); w.run(plan); break; }
    default: { World<SplineTrajectory::PPolyND<DIM, 8>> w(ctx, 8, true, twin_every); w.run(plan); break; }
    }
}

#define POLY_REGISTER(DIMV, TAG)                                                                                            \
    namespace                                                                                                                \
    {                                                                                                                        \
    sim::Plan gen03_##TAG(uint64_t s, uint64_t i, sim::Tier t) { return polyw::gen_plan(s, i, t, 0, 4); }                    \
    sim::Plan gen11_##TAG(uint64_t s, uint64_t i, sim::Tier t) { return polyw::gen_plan(s, i, t, 1, 4); }                    \
    sim::Plan gen16_##TAG(uint64_t s, uint64_t i, sim::Tier t) { return polyw::gen_plan(s, i, t, 2, 4); }                    \
    sim::Register r03_##TAG(sim::Workload{"C03", "poly_" #TAG, gen03_##TAG, polyw::exec_plan<DIMV>, polyw::kNames, polyw::OP_N, false, 1}); \
    sim::Register r11_##TAG(sim::Workload{"C11", "poly_" #TAG, gen11_##TAG, polyw::exec_plan<DIMV>, polyw::kNames, polyw::OP_N, false, 1}); \
    sim::Register r16_##TAG(sim::Workload{"C16", "poly_" #TAG, gen16_##TAG, polyw::exec_plan<DIMV>, polyw::kNames, polyw::OP_N, false, 1}); \
    }

} // namespace polyw
