// Spline world: histories of update / query / propagate / copy on veteran spline
// objects, checked against fresh twins (bitwise) and, for propagation, against
// a finite-difference transpose-Jacobian (C05), for C10, C11 (spline half) and
// the spline sentence of C15.
#pragma once
#include "problem.hpp"
#include "poly.hpp"

namespace splw
{
using namespace simx;
using prob::Problem;

enum
{
    OP_UPDATE, OP_PROPAGATE, OP_ENERGY, OP_ENERGY_GRAD, OP_PARTIALS, OP_EVAL, OP_COEFFS, OP_COPY, OP_ASSIGN, OP_DESTROY,
    OP_ADJOINT, OP_LINEARITY, OP_TRAJ_COPY, OP_SELF_ASSIGN, OP_SAME_SPAN, OP_N
};
static const char *const kNames[] = {"update", "propagate", "energy", "energy_grad", "partials", "eval", "coeffs", "copy", "assign",
                                     "destroy", "adjoint", "linearity", "traj_copy", "self_assign", "same_span"};
static const int kHandles = 3;

template <class Spline>
struct GradOps
{
    using G = typename Spline::Gradients;
    static bool equal(const G &a, const G &b, std::string &where)
    {
        if (!bitwise_equal(a.inner_points, b.inner_points)) { where = "inner_points"; return false; }
        if (!bitwise_equal(a.times, b.times)) { where = "times"; return false; }
        if (!bitwise_equal(a.start.p, b.start.p)) { where = "start.p"; return false; }
        if (!bitwise_equal(a.start.v, b.start.v)) { where = "start.v"; return false; }
        if (!bitwise_equal(a.end.p, b.end.p)) { where = "end.p"; return false; }
        if (!bitwise_equal(a.end.v, b.end.v)) { where = "end.v"; return false; }
        if constexpr (Spline::ORDER >= 5)
        {
            if (!bitwise_equal(a.start.a, b.start.a)) { where = "start.a"; return false; }
            if (!bitwise_equal(a.end.a, b.end.a)) { where = "end.a"; return false; }
        }
        if constexpr (Spline::ORDER >= 7)
        {
            if (!bitwise_equal(a.start.j, b.start.j)) { where = "start.j"; return false; }
            if (!bitwise_equal(a.end.j, b.end.j)) { where = "end.j"; return false; }
        }
        return true;
    }
    static void log(RunCtx &ctx, const G &a)
    {
        log_matrix(ctx, a.inner_points);
        log_matrix(ctx, a.times);
        log_matrix(ctx, a.start.p);
        log_matrix(ctx, a.start.v);
        log_matrix(ctx, a.end.p);
        log_matrix(ctx, a.end.v);
        if constexpr (Spline::ORDER >= 5) { log_matrix(ctx, a.start.a); log_matrix(ctx, a.end.a); }
        if constexpr (Spline::ORDER >= 7) { log_matrix(ctx, a.start.j); log_matrix(ctx, a.end.j); }
    }
    // flatten to one vector in a fixed order: times, start.p, inner, end.p, start.v, end.v, start.a, end.a, start.j, end.j
    static std::vector<double> flat(const G &a)
    {
        std::vector<double> v;
        for (Eigen::Index i = 0; i < a.times.size(); ++i) v.push_back(a.times(i));
        for (Eigen::Index d = 0; d < a.start.p.size(); ++d) v.push_back(a.start.p(d));
        for (Eigen::Index i = 0; i < a.inner_points.rows(); ++i)
            for (Eigen::Index d = 0; d < a.inner_points.cols(); ++d) v.push_back(a.inner_points(i, d));
        for (Eigen::Index d = 0; d < a.end.p.size(); ++d) v.push_back(a.end.p(d));
        for (Eigen::Index d = 0; d < a.start.v.size(); ++d) v.push_back(a.start.v(d));
        for (Eigen::Index d = 0; d < a.end.v.size(); ++d) v.push_back(a.end.v(d));
        if constexpr (Spline::ORDER >= 5)
        {
            for (Eigen::Index d = 0; d < a.start.a.size(); ++d) v.push_back(a.start.a(d));
            for (Eigen::Index d = 0; d < a.end.a.size(); ++d) v.push_back(a.end.a(d));
        }
        if constexpr (Spline::ORDER >= 7)
        {
            for (Eigen::Index d = 0; d < a.start.j.size(); ++d) v.push_back(a.start.j(d));
            for (Eigen::Index d = 0; d < a.end.j.size(); ++d) v.push_back(a.end.j(d));
        }
        return v;
    }
};

// The inputs of a spline as one flat parameter vector, in the same order as GradOps::flat
template <class Spline, int DIM>
struct Params
{
    static int count(const Problem<DIM> &p)
    {
        const int N = p.N();
        int blocks = Spline::ORDER == 3 ? 2 : (Spline::ORDER == 5 ? 4 : 6);
        return N + (N + 1) * DIM + blocks * DIM;
    }
    static double &ref(Problem<DIM> &p, int k)
    {
        const int N = p.N();
        if (k < N) return p.T[k];
        k -= N;
        if (k < (N + 1) * DIM) return p.P(k / DIM, k % DIM);
        k -= (N + 1) * DIM;
        int b = k / DIM, d = k % DIM;
        switch (b)
        {
        case 0: return p.bc.start_velocity(d);
        case 1: return p.bc.end_velocity(d);
        case 2: return p.bc.start_acceleration(d);
        case 3: return p.bc.end_acceleration(d);
        case 4: return p.bc.start_jerk(d);
        default: return p.bc.end_jerk(d);
        }
    }
};

template <class Spline>
struct World
{
    static constexpr int DIM = Spline::VectorType::RowsAtCompileTime;
    using Mat = typename Spline::MatrixType;
    using Vec = typename Spline::VectorType;
    using G = typename Spline::Gradients;
    using GO = GradOps<Spline>;

    struct Handle
    {
        std::unique_ptr<Spline> s;
        Problem<DIM> m;
        // a reference to the exposed trajectory taken earlier and kept by the caller across later updates
        const typename Spline::TrajectoryType *held = nullptr;
        bool live() const { return (bool)s; }
    };
    RunCtx &ctx;
    Handle h[kHandles];
    std::unique_ptr<typename Spline::TrajectoryType> kept_traj; // copy of a trajectory taken earlier
    Problem<DIM> kept_model;
    G reused_out; // a Gradients struct reused across calls of the reference overload
    G reused_energy;
    double worst_adjoint = 0.0;

    explicit World(RunCtx &c) : ctx(c) {}

    int pick(int64_t v) const
    {
        for (int q = 0; q < kHandles; ++q)
        {
            int k = (int)((((v + q) % kHandles) + kHandles) % kHandles);
            if (h[k].s) return k;
        }
        return -1;
    }

    static void gen_upstream(uint64_t seed, int kind, const Spline &s, int N, Mat &gdC, Eigen::VectorXd &gdT)
    {
        Rng r(seed, 0x95);
        const int rows = N * Spline::COEFF_NUM;
        gdC = Mat::Zero(rows, DIM);
        gdT = Eigen::VectorXd::Zero(N);
        switch (((kind % 6) + 6) % 6)
        {
        case 0: // dense
            for (int i = 0; i < rows; ++i)
                for (int d = 0; d < DIM; ++d) gdC(i, d) = r.real(-1.0, 1.0);
            for (int i = 0; i < N; ++i) gdT(i) = r.real(-1.0, 1.0);
            break;
        case 1: // sparse
            for (int i = 0; i < rows; ++i)
                for (int d = 0; d < DIM; ++d)
                    if (r.chance(0.15)) gdC(i, d) = r.real(-1.0, 1.0);
            for (int i = 0; i < N; ++i)
                if (r.chance(0.3)) gdT(i) = r.real(-1.0, 1.0);
            break;
        case 2: // single unit entry, any coefficient row (including c0..c_{s-1})
        {
            int rr = (int)r.below((uint64_t)rows);
            int cc = (int)r.below(DIM);
            gdC(rr, cc) = 1.0;
        }
            break;
        case 3: // single duration entry
            gdT((int)r.below((uint64_t)N)) = 1.0;
            break;
        case 4: // the energy partials
            gdC.setConstant(41.0);
            gdT.setConstant(-41.0);
            s.getEnergyPartialGradByCoeffs(gdC);
            s.getEnergyPartialGradByTimes(gdT);
            break;
        default: break; // zero
        }
    }

    // everything observable on a veteran must be bit-identical on a fresh twin built from the latest inputs
    void check_twin(Handle &H, const char *when, bool deep)
    {
        const Spline &a = *H.s;
        // the veteran answers first; the twin is constructed only afterwards (constructing it first could refresh
        // state that the library keeps outside the object, and hide that the veteran depended on it)
        double vE = 0.0;
        G vG;
        Mat vPC;
        Eigen::VectorXd vPT;
        if (deep)
        {
            vE = a.getEnergy();
            vG = a.getEnergyGrad();
            vPC = a.getEnergyPartialGradByCoeffs();
            vPT = a.getEnergyPartialGradByTimes();
        }
        std::unique_ptr<Spline> twin = prob::make_spline<Spline, DIM>(H.m);
        const Spline &b = *twin;
        const int N = H.m.N();
        if (H.held)
        {
            // first of all, through the reference obtained before (no accessor is called again): the exposed
            // trajectory is a member of the spline and must already describe the latest update
            const auto &tb0 = b.getTrajectory();
            SIM_CHECK(H.held->getNumSegments() == N && bitwise_equal_vec(H.held->getBreakpoints(), tb0.getBreakpoints()) &&
                          bitwise_equal(H.held->getCoefficients(), tb0.getCoefficients()),
                      "held_trajectory_reference_stale",
                      when << ": a reference to getTrajectory() obtained earlier does not show the latest update (N=" << N << ", it reports "
                           << H.held->getNumSegments() << " segments)");
            double tq = tb0.getStartTime() + 0.41 * (tb0.getEndTime() - tb0.getStartTime());
            SIM_CHECK(bitwise_equal(H.held->evaluate(tq, 1), tb0.evaluate(tq, 1)), "held_trajectory_reference_stale",
                      when << ": evaluation through an earlier reference to the trajectory is stale");
            ctx.count("oracle.held_reference");
        }
        SIM_CHECK(a.isInitialized(), "initialized", when << ": spline not initialised after update");
        SIM_CHECK(a.getNumSegments() == N, "num_segments", when << ": getNumSegments()=" << a.getNumSegments() << " expected " << N);
        SIM_CHECK(bitwise_equal_vec(a.getTimeSegments(), H.m.T), "time_segments", when << ": stored durations differ from the latest input");
        SIM_CHECK(bitwise_equal(a.getSpacePoints(), H.m.P), "space_points", when << ": stored waypoints differ from the latest input");
        SIM_CHECK(bitwise_equal_vec(a.getCumulativeTimes(), b.getCumulativeTimes()), "cumulative_times", when << ": knot times differ from a fresh spline");
        SIM_CHECK((int)a.getCumulativeTimes().size() == N + 1, "cumulative_size", when << ": " << a.getCumulativeTimes().size() << " knot times for " << N << " segments");
        SIM_CHECK(same_bits(a.getStartTime(), b.getStartTime()) && same_bits(a.getEndTime(), b.getEndTime()) && same_bits(a.getDuration(), b.getDuration()),
                  "time_range", when << ": start/end/duration differ from a fresh spline");
        const auto &ta = a.getTrajectory();
        const auto &tb = b.getTrajectory();
        SIM_CHECK(ta.isInitialized() && ta.getNumSegments() == N, "trajectory_shape", when << ": trajectory has " << ta.getNumSegments() << " segments, spline " << N);
        SIM_CHECK(bitwise_equal(ta.getCoefficients(), tb.getCoefficients()), "coeffs_vs_fresh",
                  when << ": coefficients of the reused spline differ from a fresh spline built from the same inputs (N=" << N << ")");
        SIM_CHECK(bitwise_equal_vec(ta.getBreakpoints(), a.getCumulativeTimes()), "trajectory_breakpoints", when << ": trajectory breakpoints are not the knot times");
        log_matrix(ctx, ta.getCoefficients());
        if (!deep) return;
        SIM_CHECK(same_bits(vE, b.getEnergy()), "energy_vs_fresh", when << ": energy " << vE << " vs fresh " << b.getEnergy());
        std::string where;
        G gb = b.getEnergyGrad();
        SIM_CHECK(GO::equal(vG, gb, where), "energy_grad_vs_fresh", when << ": energy gradient field " << where << " differs from a fresh spline");
        SIM_CHECK(bitwise_equal(vPC, b.getEnergyPartialGradByCoeffs()) && bitwise_equal(vPT, b.getEnergyPartialGradByTimes()),
                  "partials_vs_fresh", when << ": energy partials differ from a fresh spline");
        // and once more after the twin exists (both orders of construction and query)
        SIM_CHECK(same_bits(a.getEnergy(), vE), "energy_changed_by_other_object", when << ": the energy of this spline changed when another spline was constructed");
        ctx.count("oracle.fresh_twin_deep");
    }

    void do_update(Handle &H, int N, uint64_t seed, int domain, bool by_points, bool construct)
    {
        Problem<DIM> p = prob::gen_problem<DIM>(seed, N, Spline::ORDER, domain, by_points);
        if (H.s && !construct)
        {
            int oldN = H.m.N();
            if (oldN != p.N()) ctx.count(p.N() > oldN ? "probe.update_grow" : "probe.update_shrink");
            if (p.N() == 1 && oldN > 1) ctx.count("probe.shrink_to_1");
            if (p.N() == 2 && oldN > 2) ctx.count("probe.shrink_to_2");
            if (oldN == 1 && p.N() > 1) ctx.count("probe.grow_from_1");
            prob::apply_update<Spline, DIM>(*H.s, p);
        }
        else
        {
            H.s = prob::make_spline<Spline, DIM>(p);
            H.held = nullptr;
            ctx.count("ops.construct");
        }
        ctx.count(by_points ? "probe.update_by_time_points" : "probe.update_by_durations");
        H.m = std::move(p);
    }

    // L(params) = <gdC, coeffs> + <gdT, T> on a fresh spline
    static long double scalar_L(const Problem<DIM> &p, const Mat &gdC, const Eigen::VectorXd &gdT)
    {
        Spline s(p.T, p.P, p.t0, p.bc);
        const auto &C = s.getTrajectory().getCoefficients();
        long double acc = 0.0L;
        for (Eigen::Index i = 0; i < C.rows(); ++i)
            for (Eigen::Index d = 0; d < C.cols(); ++d) acc += (long double)gdC(i, d) * (long double)C(i, d);
        for (int i = 0; i < p.N(); ++i) acc += (long double)gdT(i) * (long double)p.T[i];
        return acc;
    }

    void adjoint_check(Handle &H, uint64_t seed, int kind)
    {
        const int N = H.m.N();
        Mat gdC;
        Eigen::VectorXd gdT;
        gen_upstream(seed, kind, *H.s, N, gdC, gdT);
        G got = H.s->propagateGrad(gdC, gdT);
        std::vector<double> g = GO::flat(got);
        Problem<DIM> base = H.m;
        base.by_points = false;
        const int np = Params<Spline, DIM>::count(base);
        SIM_CHECK((int)g.size() == np, "gradient_shape", "propagateGrad returned " << g.size() << " numbers for " << np << " inputs");
        std::vector<long double> fd(np);
        long double gmax = 0.0L;
        for (int k = 0; k < np; ++k)
        {
            Problem<DIM> q = base;
            double &x = Params<Spline, DIM>::ref(q, k);
            const double x0 = x;
            long double d;
            if (k < N)
            {
                // durations: Richardson-extrapolated central differences with a relative step
                double hstep = 1e-3 * x0;
                auto D = [&](double hh) {
                    x = x0 + hh; long double lp = scalar_L(q, gdC, gdT);
                    x = x0 - hh; long double lm = scalar_L(q, gdC, gdT);
                    // use the steps that were actually representable
                    double up = (x0 + hh) - x0, dn = x0 - (x0 - hh);
                    return (lp - lm) / ((long double)up + (long double)dn);
                };
                long double d1 = D(hstep), d2 = D(hstep / 2);
                d = (4.0L * d2 - d1) / 3.0L;
            }
            else
            {
                // the map is linear in waypoints and boundary states: a two-point difference is exact up to rounding
                double hstep = 1.0;
                x = x0 + hstep; long double lp = scalar_L(q, gdC, gdT);
                x = x0 - hstep; long double lm = scalar_L(q, gdC, gdT);
                d = (lp - lm) / 2.0L;
            }
            x = x0;
            fd[k] = d;
            gmax = std::max(gmax, fabsl(d));
        }
        // Tolerance: 3e-5 relative to the component plus a tenth of the largest component, plus the rounding
        // noise floor of the difference quotient itself (eps * |L| / step).  Measured worst ratio err/tol on the
        // pinned tree is recorded by the margin.* counters (two orders of magnitude of head-room).
        long double Labs = 0.0L;
        {
            const auto &C = H.s->getTrajectory().getCoefficients();
            for (Eigen::Index i = 0; i < C.rows(); ++i)
                for (Eigen::Index d = 0; d < C.cols(); ++d) Labs += fabsl((long double)gdC(i, d) * (long double)C(i, d));
            for (int i = 0; i < N; ++i) Labs += fabsl((long double)gdT(i) * (long double)base.T[i]);
        }
        long double scale = gmax + 1e-300L;
        // noise floor of the difference quotient: the forward solves themselves carry a rounding error that grows with the
        // order (scaled residuals at the edge of the well-scaled domain, s4: cubic 3e-16, quintic 1e-11, septic 2e-9)
        const long double kappa = Spline::ORDER == 3 ? 2e3L * (long double)DBL_EPSILON : (Spline::ORDER == 5 ? 1e-10L : 2e-8L);
        double worst = 0.0;
        int worst_k = -1;
        for (int k = 0; k < np; ++k)
        {
            long double err = fabsl((long double)g[k] - fd[k]);
            long double step = k < N ? 1e-3L * (long double)base.T[k] : 1.0L;
            long double tol = 3e-5L * (fabsl(fd[k]) + 0.1L * scale) + kappa * Labs / step;
            double ratio = (double)(err / tol);
            if (ratio > worst) { worst = ratio; worst_k = k; }
            if (err > tol && k < N)
            {
                // make sure the reference has converged before calling this a violation (see the optimizer world)
                Problem<DIM> q = base;
                double &xq = Params<Spline, DIM>::ref(q, k);
                const double x0 = xq;
                auto R = [&](double hh) {
                    auto D = [&](double h1) {
                        xq = x0 + h1; long double lp = scalar_L(q, gdC, gdT);
                        xq = x0 - h1; long double lm = scalar_L(q, gdC, gdT);
                        xq = x0;
                        double up = (x0 + h1) - x0, dn = x0 - (x0 - h1);
                        return (lp - lm) / ((long double)up + (long double)dn);
                    };
                    return (4.0L * D(hh / 2) - D(hh)) / 3.0L;
                };
                long double r4 = R(1e-3 * x0 / 4), r16 = R(1e-3 * x0 / 16);
                long double tol16 = 3e-5L * (fabsl(r16) + 0.1L * scale) + kappa * Labs / (step / 16);
                if (fabsl(r16 - r4) > 0.25L * tol16) { ctx.count("probe.fd_reference_not_converged"); continue; }
                if (fabsl((long double)g[k] - r16) <= tol16) { ctx.count("probe.fd_reference_refined"); continue; }
                fd[k] = r16;
                tol = tol16;
                err = fabsl((long double)g[k] - r16);
                ratio = (double)(err / tol);
            }
            SIM_CHECK(err <= tol, "adjoint_vs_finite_difference",
                      "propagateGrad component " << k << " of " << np << " (N=" << N << ", upstream kind " << kind << "): analytic " << g[k]
                                                 << " finite-difference " << (double)fd[k] << " |err|/tol " << ratio);
        }
        {
            NoRace gd;
            if (worst > worst_adjoint) worst_adjoint = worst;
        }
        ctx.count("oracle.adjoint_fd");
        if (worst > 1e-2 && std::getenv("STSIM_DEBUG_MARGIN"))
        {
            double mn = 1e9, mx = 0;
            for (double t : H.m.T) { mn = std::min(mn, t); mx = std::max(mx, t); }
            fprintf(stderr, "MARGIN adjoint worst=%.3g k=%d N=%d order=%d dim=%d kind=%d Tmin=%.3g Tmax=%.3g g=%.6g fd=%.6g gmax=%.3g Labs=%.3g\n", worst, worst_k, N, Spline::ORDER, DIM, kind, mn, mx, g[worst_k], (double)fd[worst_k], (double)gmax, (double)Labs);
        }
        // margin histogram: worst err/tol of this check
        ctx.count(worst < 1e-3 ? "margin.adjoint.err_over_tol_lt_1e-3" : worst < 1e-2 ? "margin.adjoint.err_over_tol_lt_1e-2" : worst < 1e-1 ? "margin.adjoint.err_over_tol_lt_1e-1" : "margin.adjoint.err_over_tol_lt_1");
    }

    void run(const Plan &plan)
    {
        const int domain0 = (int)plan.CI(2, 0);
        do_update(h[0], (int)plan.CI(0, 3), (uint64_t)plan.CI(1, 1), domain0, (plan.CI(3) & 1) != 0, true);
        check_twin(h[0], "construct", true);
        bool changed = false, queried = false;
        for (const Op &o : plan.ops)
        {
            const int kind = ((o.kind % OP_N) + OP_N) % OP_N;
            ctx.ev(kNames[kind]);
            ctx.count(std::string("ops.") + kNames[kind]);
            switch (kind)
            {
            case OP_UPDATE:
            {
                int k = (int)(((o.I(0) % kHandles) + kHandles) % kHandles);
                int N = 1 + (int)(((o.I(1) - 1) % 40 + 40) % 40);
                do_update(h[k], N, (uint64_t)o.I(2), (int)(((o.I(3) % 2) + 2) % 2) ? domain0 : domain0, (o.I(4) & 1) != 0, (o.I(4) & 2) != 0);
                check_twin(h[k], "after update", (o.I(4) & 4) == 0);
                changed = true;
                ctx.mark_nontrivial();
                break;
            }
            case OP_SAME_SPAN:
            {
                // two consecutive updates with the same segment count, the same start and (bit for bit) the same end time
                // but different interior knots: durations are dyadic, so any permutation sums to exactly the same span
                int k = (int)(((o.I(0) % kHandles) + kHandles) % kHandles);
                int N = 2 + (int)(((o.I(1) % 6) + 6) % 6);
                Rng r((uint64_t)o.I(2), 0x5a);
                Problem<DIM> p = prob::gen_problem<DIM>((uint64_t)o.I(2), N, Spline::ORDER, 0, (o.I(3) & 1) != 0);
                p.t0 = (double)r.range(-50, 50);
                std::vector<double> ratios = {1.0, 1.5, 2.0, 0.75, 1.25, 3.0, 0.5};
                double base = Spline::ORDER == 7 ? 0.5 : 0.25;
                for (int i = 0; i < N; ++i) p.T[i] = base * ratios[(size_t)r.below(ratios.size())];
                auto rebuild = [&]() {
                    p.tp[0] = p.t0;
                    for (int i = 0; i < N; ++i) p.tp[i + 1] = p.tp[i] + p.T[i];
                };
                rebuild();
                if (!h[k].s) { h[k].s = prob::make_spline<Spline, DIM>(p); h[k].held = nullptr; }
                else prob::apply_update<Spline, DIM>(*h[k].s, p);
                h[k].m = p;
                check_twin(h[k], "same-span update (first)", false);
                (void)h[k].s->getTrajectory().evaluate(p.t0 + 0.3, 1);
                // permute the durations (and take new waypoints): same N, same start, same end, other interior knots
                for (int i = N - 1; i > 0; --i) std::swap(p.T[i], p.T[(size_t)r.below((uint64_t)i + 1)]);
                bool moved = false;
                for (int i = 0; i < N; ++i) moved = moved || p.T[i] != h[k].m.T[i];
                rebuild();
                for (int i = 0; i <= N; ++i)
                    for (int d = 0; d < DIM; ++d) p.P(i, d) = r.real(-10.0, 10.0);
                prob::apply_update<Spline, DIM>(*h[k].s, p);
                h[k].m = p;
                if (moved && same_bits(p.tp[N], h[k].s->getEndTime())) ctx.count("probe.same_span_other_knots");
                check_twin(h[k], "same-span update (second)", true);
                {
                    std::unique_ptr<Spline> twin = prob::make_spline<Spline, DIM>(p);
                    for (int i = 0; i < N; ++i)
                    {
                        double t = p.tp[i] + 0.37 * p.T[i];
                        SIM_CHECK(bitwise_equal(h[k].s->getTrajectory().evaluate(t, 0), twin->getTrajectory().evaluate(t, 0)), "eval_vs_fresh",
                                  "after an update that keeps the span but moves the interior knots, evaluation at t=" << t << " differs from a fresh spline");
                    }
                }
                changed = true;
                ctx.mark_nontrivial();
                break;
            }
            case OP_PROPAGATE:
            {
                int k = pick(o.I(0));
                if (k < 0) break;
                Handle &H = h[k];
                Mat gdC;
                Eigen::VectorXd gdT;
                gen_upstream((uint64_t)o.I(1), (int)o.I(2), *H.s, H.m.N(), gdC, gdT);
                std::string where;
                if ((o.I(3) & 12) == 12)
                {
                    // in-place use: the caller's upstream duration gradient lives in the very struct that receives the result
                    reused_out.times = gdT;
                    H.s->propagateGrad(gdC, reused_out.times, reused_out);
                    std::unique_ptr<Spline> tw = prob::make_spline<Spline, DIM>(H.m);
                    G w2 = tw->propagateGrad(gdC, gdT);
                    SIM_CHECK(GO::equal(reused_out, w2, where), "propagate_vs_fresh",
                              "propagateGrad with the upstream duration gradient aliasing the output (field " << where << ") differs from the same call on a fresh spline with separate buffers; N=" << H.m.N());
                    ctx.count("probe.propagate_in_place");
                    break;
                }
                // the veteran propagates first; the twin is built afterwards
                G got_first = H.s->propagateGrad(gdC, gdT);
                std::unique_ptr<Spline> twin = prob::make_spline<Spline, DIM>(H.m);
                G want = twin->propagateGrad(gdC, gdT);
                SIM_CHECK(GO::equal(got_first, want, where), "propagate_vs_fresh",
                          "propagateGrad field " << where << " differs from the same call on a spline constructed afterwards from the same inputs; N=" << H.m.N());
                if (o.I(3) & 1)
                {
                    // the caller's output struct comes back from earlier use with arbitrary contents
                    if (reused_out.inner_points.size() > 0) reused_out.inner_points.setConstant(-777.25);
                    if (reused_out.times.size() > 0) reused_out.times.setConstant(1e30);
                    reused_out.start.p.setConstant(3.5);
                    reused_out.end.v.setConstant(-2.5);
                    H.s->propagateGrad(gdC, gdT, reused_out);
                    SIM_CHECK(GO::equal(reused_out, want, where), "propagate_vs_fresh",
                              "propagateGrad (reference overload, reused output) field " << where << " differs from the same call on a fresh spline; N=" << H.m.N());
                    GO::log(ctx, reused_out);
                    ctx.count("probe.propagate_reused_output");
                }
                else
                {
                    G got = H.s->propagateGrad(gdC, gdT);
                    SIM_CHECK(GO::equal(got, want, where), "propagate_vs_fresh",
                              "propagateGrad field " << where << " differs from the same call on a fresh spline; N=" << H.m.N());
                    GO::log(ctx, got);
                }
                // the construction map (waypoints, durations, boundary states) -> (coefficients, durations) does not involve
                // the start time: the same call on a spline that starts somewhere else must give the same bits
                {
                    Problem<DIM> q = H.m;
                    q.by_points = false;
                    static const double shifts[] = {0.0, 1758931200.0, -86400.0, 1e-3, 6.02e12};
                    q.t0 = shifts[(size_t)(((o.I(1) % 5) + 5) % 5)];
                    Spline moved(q.T, q.P, q.t0, q.bc);
                    G other = moved.propagateGrad(gdC, gdT);
                    SIM_CHECK(GO::equal(other, want, where), "propagate_depends_on_start_time",
                              "propagateGrad field " << where << " changes when only the start time changes (" << H.m.t0 << " -> " << q.t0 << "); N=" << H.m.N());
                    ctx.count("oracle.start_time_invariance");
                }
                // a propagation must not disturb anything else
                if (o.I(3) & 2) check_twin(H, "after propagate", true);
                if (changed) queried = true;
                break;
            }
            case OP_ENERGY:
            case OP_ENERGY_GRAD:
            case OP_PARTIALS:
            case OP_COEFFS:
            {
                int k = pick(o.I(0));
                if (k < 0) break;
                if (kind == OP_PARTIALS)
                {
                    // reference overloads writing into buffers the caller has used before (same size, arbitrary contents)
                    std::unique_ptr<Spline> twin = prob::make_spline<Spline, DIM>(h[k].m);
                    Mat want_c = twin->getEnergyPartialGradByCoeffs();
                    Eigen::VectorXd want_t = twin->getEnergyPartialGradByTimes();
                    Mat buf_c = Mat::Constant(want_c.rows(), DIM, (o.I(1) & 1) ? 12345.678 : std::nan(""));
                    Eigen::VectorXd buf_t = Eigen::VectorXd::Constant(want_t.size(), -9.75);
                    if (o.I(1) & 2) { buf_c.resize(3, DIM); buf_t.resize(1); } // or of another size
                    h[k].s->getEnergyPartialGradByCoeffs(buf_c);
                    h[k].s->getEnergyPartialGradByTimes(buf_t);
                    SIM_CHECK(bitwise_equal(buf_c, want_c) && bitwise_equal(buf_t, want_t), "partials_depend_on_caller_buffer",
                              "energy partials written into a previously used buffer differ from those of a fresh spline (N=" << h[k].m.N() << ")");
                    ctx.count("oracle.poisoned_caller_buffer");
                }
                if (kind == OP_ENERGY_GRAD)
                {
                    // the energy and its gradients do not involve the start time either
                    Problem<DIM> q = h[k].m;
                    q.by_points = false;
                    static const double shifts[] = {0.0, 1758931200.0, -86400.0, 1e-3, 6.02e12};
                    q.t0 = shifts[(size_t)(((o.I(1) / 2 % 5) + 5) % 5)];
                    Spline moved(q.T, q.P, q.t0, q.bc);
                    std::unique_ptr<Spline> tw = prob::make_spline<Spline, DIM>(h[k].m);
                    std::string where;
                    G a = moved.getEnergyGrad(), b = tw->getEnergyGrad();
                    SIM_CHECK(same_bits(moved.getEnergy(), tw->getEnergy()) && GO::equal(a, b, where), "energy_depends_on_start_time",
                              "energy or energy gradient field " << where << " changes when only the start time changes (" << h[k].m.t0 << " -> " << q.t0 << ")");
                    ctx.count("oracle.start_time_invariance");
                }
                if (kind == OP_ENERGY_GRAD && (o.I(1) & 1))
                {
                    std::unique_ptr<Spline> twin = prob::make_spline<Spline, DIM>(h[k].m);
                    reused_energy.start.v.setConstant(55.5);
                    if (reused_energy.times.size() > 0) reused_energy.times.setConstant(-1e9);
                    h[k].s->getEnergyGrad(reused_energy);
                    G want = twin->getEnergyGrad();
                    std::string where;
                    SIM_CHECK(GO::equal(reused_energy, want, where), "energy_grad_vs_fresh", "getEnergyGrad(reused struct) field " << where << " differs from a fresh spline");
                    std::unique_ptr<Spline> twin2 = prob::make_spline<Spline, DIM>(h[k].m);
                    SIM_CHECK(bitwise_equal(h[k].s->getEnergyGradTimes(), twin2->getEnergyGradTimes()) &&
                                  bitwise_equal(h[k].s->getEnergyGradInnerPoints(), twin2->getEnergyGradInnerPoints()),
                              "energy_grad_vs_fresh", "separate energy gradient getters differ from a fresh spline");
                }
                check_twin(h[k], kNames[kind], true);
                if (changed) queried = true;
                break;
            }
            case OP_EVAL:
            {
                int k = pick(o.I(0));
                if (k < 0) break;
                Handle &H = h[k];
                const auto &tr = (o.I(3) & 64) ? H.s->getPPoly() : H.s->getTrajectory();
                if (o.I(3) & 32) { H.held = &tr; ctx.count("probe.trajectory_reference_kept"); }
                std::unique_ptr<Spline> twin = prob::make_spline<Spline, DIM>(H.m);
                // time selection through the polynomial world's helper on the twin's breakpoints
                typename polyw::World<typename Spline::TrajectoryType>::Model pm;
                pm.init = true;
                pm.b = twin->getCumulativeTimes();
                pm.nc = Spline::COEFF_NUM;
                polyw::World<typename Spline::TrajectoryType> pw(ctx, Spline::COEFF_NUM, true, 0);
                double t = pw.pick_time(pm, (int)o.I(1), o.I(2), o.D(0));
                int ord = (int)(((o.I(3) % (Spline::COEFF_NUM + 1)) + (Spline::COEFF_NUM + 1)) % (Spline::COEFF_NUM + 1));
                Vec a = tr.evaluate(t, ord);
                Vec b = twin->getTrajectory().evaluate(t, ord);
                SIM_CHECK(bitwise_equal(a, b), "eval_vs_fresh",
                          "getTrajectory().evaluate(t=" << fmt_double(t) << "," << ord << ") = " << show(a) << " but a fresh spline built from the latest inputs gives " << show(b));
                log_matrix(ctx, a);
                if (changed) queried = true;
                break;
            }
            case OP_COPY:
            case OP_ASSIGN:
            {
                int s = pick(o.I(0));
                if (s < 0) break;
                int dst = (int)(((o.I(1) % kHandles) + kHandles) % kHandles);
                if (dst == s) dst = (dst + 1) % kHandles;
                if (kind == OP_COPY || !h[dst].s) { h[dst].s.reset(new Spline(*h[s].s)); h[dst].held = nullptr; ctx.count("probe.copy_constructed"); }
                else { *h[dst].s = *h[s].s; ctx.count("probe.assigned_over_existing"); }
                h[dst].m = h[s].m;
                check_twin(h[dst], "after copy", true);
                changed = true;
                ctx.mark_nontrivial();
                break;
            }
            case OP_SELF_ASSIGN:
            {
                int s = pick(o.I(0));
                if (s < 0) break;
                if ((o.I(1) & 3) == 3)
                {
                    // update with durations that are, bit for bit, the differences of the object's own knot times
                    // (what a caller gets when it reads the grid back and re-submits it), same start time
                    if (o.I(1) & 8)
                    {
                        // look (in plain arithmetic, without the library) for a "human" grid whose knot times do not
                        // round-trip: re-adding the differences of the accumulated times gives other accumulated times.
                        // Such a grid is then given to the object before its own grid is re-submitted.
                        Rng rr((uint64_t)o.I(0) * 7919u + (uint64_t)o.I(1), 0x6a1d);
                        const int N = h[s].m.N();
                        for (int tries = 0; tries < 4000; ++tries)
                        {
                            double t0 = (double)rr.range(-200, 200) / 100.0;
                            std::vector<double> d((size_t)N), cum((size_t)N + 1), cum2((size_t)N + 1);
                            cum[0] = cum2[0] = t0;
                            // (two-decimal durations inside the duration-ratio limit of the order: 4 for septic, 20 otherwise)
                            for (int i = 0; i < N; ++i) { d[(size_t)i] = (double)rr.range(Spline::ORDER == 7 ? 50 : 10, 200) / 100.0; cum[(size_t)i + 1] = cum[(size_t)i] + d[(size_t)i]; }
                            bool differs = false;
                            for (int i = 0; i < N; ++i) { cum2[(size_t)i + 1] = cum2[(size_t)i] + (cum[(size_t)i + 1] - cum[(size_t)i]); differs = differs || cum2[(size_t)i + 1] != cum[(size_t)i + 1]; }
                            if (!differs) continue;
                            Problem<DIM> g = h[s].m;
                            g.by_points = false;
                            g.t0 = t0;
                            g.T = d;
                            g.tp = cum;
                            prob::apply_update<Spline, DIM>(*h[s].s, g);
                            h[s].m = g;
                            ctx.count("probe.grid_that_does_not_round_trip");
                            break;
                        }
                    }
                    Problem<DIM> q = h[s].m;
                    const std::vector<double> cum = h[s].s->getCumulativeTimes();
                    q.by_points = (o.I(1) & 4) != 0; // either overload: the grid itself as time points, or its differences as durations
                    q.t0 = cum[0];
                    for (int i = 0; i < q.N(); ++i) q.T[(size_t)i] = cum[(size_t)i + 1] - cum[(size_t)i];
                    q.tp = cum;
                    bool pos = true;
                    for (double t : q.T) pos = pos && t > 0;
                    if (pos)
                    {
                        if (q.by_points && (o.I(0) & 4)) h[s].s->update(h[s].s->getCumulativeTimes(), q.P, q.bc); // aliased
                        else
                        prob::apply_update<Spline, DIM>(*h[s].s, q);
                        h[s].m = q;
                        check_twin(h[s], "after update with the differences of the object's own knot times", true);
                        ctx.count("probe.update_from_own_grid");
                        changed = true;
                    }
                    break;
                }
                if (o.I(1) & 1)
                {
                    // update with the object's own stored inputs (the arguments alias the members being replaced)
                    Spline &S = *h[s].s;
                    S.update(S.getTimeSegments(), S.getSpacePoints(), S.getStartTime(), S.getBoundaryConditions());
                    h[s].m.by_points = false;
                    check_twin(h[s], "after update with aliased arguments", true);
                    ctx.count("probe.update_with_aliased_arguments");
                    changed = true;
                    break;
                }
                if (o.I(1) & 2)
                {
                    // move construction into a new object; the moved-from object is destroyed unused
                    std::unique_ptr<Spline> moved(new Spline(std::move(*h[s].s)));
                    h[s].s = std::move(moved);
                    h[s].held = nullptr;
                    check_twin(h[s], "after move construction", true);
                    ctx.count("probe.move_constructed");
                    changed = true;
                    break;
                }
                Spline *alias = h[s].s.get();
                *h[s].s = *alias;
                check_twin(h[s], "after self-assignment", true);
                break;
            }
            case OP_DESTROY:
            {
                int live_n = 0;
                for (int q = 0; q < kHandles; ++q) live_n += h[q].s ? 1 : 0;
                int k = pick(o.I(0));
                if (k < 0 || live_n <= 1) break;
                h[k].s.reset();
                h[k].held = nullptr;
                ctx.count("fault.src_destroy");
                ctx.mark_nontrivial();
                break;
            }
            case OP_TRAJ_COPY:
            {
                int k = pick(o.I(0));
                if (k < 0) break;
                if (kept_traj && (o.I(1) & 1))
                {
                    // the copy taken earlier must still describe the problem it was taken from
                    std::unique_ptr<Spline> twin = prob::make_spline<Spline, DIM>(kept_model);
                    SIM_CHECK(bitwise_equal(kept_traj->getCoefficients(), twin->getTrajectory().getCoefficients()) &&
                                  bitwise_equal_vec(kept_traj->getBreakpoints(), twin->getCumulativeTimes()),
                              "trajectory_copy_changed", "a trajectory copy taken before later updates no longer matches the inputs it was taken from");
                    double t = 0.5 * (kept_traj->getStartTime() + kept_traj->getEndTime());
                    SIM_CHECK(bitwise_equal(kept_traj->evaluate(t, 1), twin->getTrajectory().evaluate(t, 1)), "trajectory_copy_changed",
                              "evaluation of an earlier trajectory copy changed");
                    ctx.count("probe.kept_trajectory_rechecked");
                    if (o.I(1) & 4)
                    {
                        // the copy is an object of its own: updating IT must not touch the spline it was taken from
                        auto b2 = kept_traj->getBreakpoints();
                        typename Spline::MatrixType c2 = kept_traj->getCoefficients();
                        c2.array() += 1.0;
                        kept_traj->update(b2, c2, Spline::COEFF_NUM);
                        (void)kept_traj->evaluate(b2.front(), 1);
                        kept_traj.reset();
                        check_twin(h[k], "after updating a trajectory copy taken from this spline", false);
                        ctx.count("probe.kept_trajectory_updated_separately");
                    }
                }
                else
                {
                    kept_traj.reset(new typename Spline::TrajectoryType((o.I(1) & 2) ? h[k].s->getTrajectoryCopy() : h[k].s->getPPolyCopy()));
                    kept_model = h[k].m;
                    // warm its caches so that stale cache contents would show
                    (void)kept_traj->evaluate(kept_traj->getStartTime(), 2);
                }
                break;
            }
            case OP_ADJOINT:
            {
                int k = pick(o.I(0));
                if (k < 0) break;
                if (h[k].m.N() > 8) break;
                adjoint_check(h[k], (uint64_t)o.I(1), (int)o.I(2));
                break;
            }
            case OP_LINEARITY:
            {
                int k = pick(o.I(0));
                if (k < 0) break;
                Handle &H = h[k];
                Mat c1, c2;
                Eigen::VectorXd t1, t2;
                gen_upstream((uint64_t)o.I(1), 0, *H.s, H.m.N(), c1, t1);
                gen_upstream((uint64_t)o.I(1) + 77, (int)o.I(2), *H.s, H.m.N(), c2, t2);
                double al = std::ldexp(1.0, (int)(((o.I(3) % 7) + 7) % 7) - 3), be = -std::ldexp(1.0, (int)(((o.I(4) % 5) + 5) % 5) - 2);
                Mat c3 = al * c1 + be * c2;
                Eigen::VectorXd t3 = al * t1 + be * t2;
                std::vector<double> g1 = GO::flat(H.s->propagateGrad(c1, t1)), g2 = GO::flat(H.s->propagateGrad(c2, t2)), g3 = GO::flat(H.s->propagateGrad(c3, t3));
                double scale = 0.0;
                for (size_t q = 0; q < g3.size(); ++q) scale = std::max({scale, std::fabs(al * g1[q]), std::fabs(be * g2[q])});
                for (size_t q = 0; q < g3.size(); ++q)
                    SIM_CHECK(std::fabs(g3[q] - (al * g1[q] + be * g2[q])) <= (Spline::ORDER == 7 ? 1e-5 : 1e-7) * (scale + 1e-300), "propagate_linearity",
                              "component " << q << ": P(a*g1+b*g2)=" << g3[q] << " but a*P(g1)+b*P(g2)=" << (al * g1[q] + be * g2[q]));
                // scaling by a power of two is exact
                std::vector<double> g4 = GO::flat(H.s->propagateGrad(Mat(al * c1), Eigen::VectorXd(al * t1)));
                for (size_t q = 0; q < g4.size(); ++q)
                    SIM_CHECK(same_bits(g4[q], al * g1[q]) || (g4[q] == 0.0 && al * g1[q] == 0.0), "propagate_linearity",
                              "component " << q << ": P(2^k g) is not 2^k P(g) exactly: " << g4[q] << " vs " << al * g1[q]);
                // the same with a very small and a very large power of two: nothing may be treated as "numerically zero"
                for (double sc : {std::ldexp(1.0, -60), std::ldexp(1.0, 40)})
                {
                    std::vector<double> g5 = GO::flat(H.s->propagateGrad(Mat(sc * c1), Eigen::VectorXd(sc * t1)));
                    for (size_t q = 0; q < g5.size(); ++q)
                        SIM_CHECK(same_bits(g5[q], sc * g1[q]) || (g5[q] == 0.0 && sc * g1[q] == 0.0), "propagate_linearity",
                                  "component " << q << ": P(" << sc << " g) is not " << sc << " P(g) exactly: " << g5[q] << " vs " << sc * g1[q]);
                }
                ctx.count("oracle.linearity");
                break;
            }
            }
        }
        if (changed && queried) ctx.mark_nontrivial();
        for (int k = 0; k < kHandles; ++k)
            if (h[k].s) check_twin(h[k], "final", true);
    }
};

// profile 0: C05 (adjoint), 1: C10 (history), 2: C11 (trajectory freshness), 3: C15 (spline copies)
template <class Spline>
inline Plan gen_plan(uint64_t seed, uint64_t index, Tier tier, int profile)
{
    Rng r(seed, 0x51 + profile);
    Plan p;
    auto pick_N = [&]() -> int64_t {
        double u = r.unit();
        if (u < 0.55) return r.range(1, 3);
        if (u < 0.9) return r.range(4, 8);
        if (profile == 0) return r.range(4, 8);
        return r.chance(0.5) ? 33 : r.range(9, 40);
    };
    // tolerance-based oracles stay inside the well-scaled domain; pure bitwise profiles also leave it
    int domain = (profile == 0) ? 0 : (r.chance(0.5) ? 1 : 0);
    p.ci = {pick_N(), (int64_t)r.below(1u << 30), domain, (int64_t)r.below(2)};
    int nops = (int)r.range(3, tier == Tier::Thorough ? 40 : 24);
    std::vector<int> bag;
    auto add = [&](int k, int w) { for (int q = 0; q < w; ++q) bag.push_back(k); };
    bool f_copy = r.chance(profile == 3 ? 1.0 : 0.3), f_destroy = r.chance(profile == 3 ? 0.8 : 0.2);
    if (profile == 0) { add(OP_PROPAGATE, 5); add(OP_ADJOINT, 4); add(OP_LINEARITY, 2); add(OP_UPDATE, 4); add(OP_ENERGY_GRAD, 1); }
    else if (profile == 1) { add(OP_UPDATE, 8); add(OP_SAME_SPAN, 1); add(OP_PROPAGATE, 4); add(OP_ENERGY, 1); add(OP_ENERGY_GRAD, 2); add(OP_PARTIALS, 1); add(OP_EVAL, 3); add(OP_COEFFS, 1); }
    else if (profile == 2) { add(OP_UPDATE, 6); add(OP_SAME_SPAN, 2); add(OP_EVAL, 8); add(OP_TRAJ_COPY, 3); add(OP_COEFFS, 1); }
    else { add(OP_UPDATE, 4); add(OP_EVAL, 3); add(OP_PROPAGATE, 2); add(OP_ENERGY_GRAD, 1); }
    if (f_copy) { add(OP_COPY, profile == 3 ? 4 : 1); add(OP_ASSIGN, profile == 3 ? 5 : 1); }
    add(OP_SELF_ASSIGN, profile == 0 ? 1 : 2);
    if (f_destroy) add(OP_DESTROY, 2);
    for (int q = 0; q < nops; ++q)
    {
        Op o;
        o.kind = bag[r.below(bag.size())];
        switch (o.kind)
        {
        case OP_UPDATE:
            o.i = {r.chance(0.75) ? 0 : (int64_t)r.below(kHandles), pick_N(), (int64_t)r.below(1u << 30), 0, (int64_t)r.below(2) | (r.chance(0.1) ? 2 : 0) | (r.chance(0.3) ? 4 : 0)};
            // growing and shrinking through 1 and 2, and 33 -> 2 -> 33
            if (r.chance(0.25)) o.i[1] = r.chance(0.5) ? 1 : 2;
            break;
        case OP_PROPAGATE: o.i = {(int64_t)r.below(kHandles), (int64_t)r.below(1u << 30), (int64_t)r.below(6), (int64_t)r.below(16)}; break;
        case OP_SAME_SPAN: o.i = {r.chance(0.75) ? 0 : (int64_t)r.below(kHandles), (int64_t)r.below(6), (int64_t)r.below(1u << 30), (int64_t)r.below(2)}; break;
        case OP_ENERGY: case OP_COEFFS: o.i = {(int64_t)r.below(kHandles)}; break;
        case OP_PARTIALS: o.i = {(int64_t)r.below(kHandles), (int64_t)r.below(4)}; break;
        case OP_ENERGY_GRAD: o.i = {(int64_t)r.below(kHandles), (int64_t)r.below(10)}; break;
        case OP_EVAL: o.i = {(int64_t)r.below(kHandles), (int64_t)r.below(8), (int64_t)r.below(64), (int64_t)r.below(128)}; o.d = {r.unit()}; break;
        case OP_COPY: case OP_ASSIGN: o.i = {(int64_t)r.below(kHandles), (int64_t)r.below(kHandles)}; break;
        case OP_DESTROY: o.i = {(int64_t)r.below(kHandles)}; break;
        case OP_SELF_ASSIGN: o.i = {(int64_t)r.below(kHandles), (int64_t)r.below(16)}; break;
        case OP_TRAJ_COPY: o.i = {(int64_t)r.below(kHandles), (int64_t)r.below(8)}; break;
        case OP_ADJOINT: o.i = {(int64_t)r.below(kHandles), (int64_t)r.below(1u << 30), (int64_t)r.below(6)}; break;
        case OP_LINEARITY: o.i = {(int64_t)r.below(kHandles), (int64_t)r.below(1u << 30), (int64_t)r.below(6), (int64_t)r.below(7), (int64_t)r.below(5)}; break;
        }
        p.ops.push_back(std::move(o));
    }
    return p;
}

template <class Spline>
inline void exec_plan(const Plan &plan, RunCtx &ctx)
{
    World<Spline> w(ctx);
    w.run(plan);
}

} // namespace splw
