// Optimizer world, part 2: plan interpreter and generators for
// C07 C08 C09 C10 C12 C15 C16 C19.
#pragma once
#include "opt_world.hpp"
#include <cfenv>
#include <fenv.h>

namespace optw
{

enum
{
    OP_CONSTRUCT, OP_SET_INIT, OP_SET_FLAGS, OP_SET_TMAP, OP_SET_SMAP, OP_SET_RHO, OP_SET_K, OP_GET_DIM, OP_INIT_GUESS, OP_EVAL,
    OP_CONCURRENT, OP_COPY, OP_ASSIGN, OP_SELF_ASSIGN, OP_DESTROY, OP_MUTATE_USER_MAP, OP_CHECKGRAD, OP_VALIDITY, OP_WS_COPY, OP_N
};
static const char *const kNames[] = {"construct", "set_init", "set_flags", "set_tmap", "set_smap", "set_rho", "set_K", "get_dim", "init_guess",
                                     "eval", "concurrent", "copy", "assign", "self_assign", "destroy", "mutate_user_map", "checkgrad", "validity",
                                     "ws_copy"};

enum { CHK_TWIN = 1, CHK_TRACE = 2, CHK_FD = 4, CHK_EXPOSED = 8 };

template <class Spline, class TM, class SM>
struct Interp : World<Spline, TM, SM>
{
    using W = World<Spline, TM, SM>;
    using typename W::Opt; using typename W::WS; using typename W::Mat; using typename W::Vec; using typename W::Model; using typename W::CC; using typename W::Trace;
    using typename W::Handle;
    using W::ctx; using W::h; using W::ws; using W::prog; using W::user_tm; using W::user_sm;
    static constexpr int DIM = W::DIM;
    static constexpr int ORDER = W::ORDER;

    bool plan_prop_is_c16 = false;
    Mat exposed_snapshot[W::kHandles];
    bool exposed_known[W::kHandles] = {false, false, false};
    bool msg_known[W::kHandles] = {false, false, false};

    explicit Interp(RunCtx &c) : W(c) {}

    // a user time map with a restricted range (C16 plans only) cannot carry an evaluation
    bool evaluable(const Model &m) const
    {
        if constexpr (W::kSimMaps)
            if (m.tm_user >= 0 && user_tm[(size_t)m.tm_user]->kind == 3) return false;
        return true;
    }
    int pick(int64_t v, bool need_valid) const
    {
        for (int q = 0; q < W::kHandles; ++q)
        {
            int k = (int)((((v + q) % W::kHandles) + W::kHandles) % W::kHandles);
            if (h[k].o && (!need_valid || (h[k].m.valid && evaluable(h[k].m)))) return k;
        }
        return -1;
    }
    int live_count() const
    {
        int n = 0;
        for (int k = 0; k < W::kHandles; ++k) n += h[k].o ? 1 : 0;
        return n;
    }

    void construct(int k, int tm_kind, double tm_param, int sm_kind, double sm_param)
    {
        if (h[k].o) this->free_opt(h[k].o);
        Model m;
        m.tm_kind = tm_kind; m.tm_param = tm_param; m.sm_kind = sm_kind; m.sm_param = sm_param;
        this->set_default_map_hooks(m);
        h[k].o = this->new_opt();
        h[k].m = m;
        exposed_known[k] = false;
        msg_known[k] = true;
    }

    // apply one input fault to the arguments of setInitState
    void apply_bad(Problem<DIM> &p, int kind, int64_t pos, int64_t pos2)
    {
        const int N = p.N();
        auto set_time = [&](double v) {
            int i = (int)(((pos % N) + N) % N);
            p.T[i] = v;
            if (p.by_points)
            {
                // rebuild the time points so that segment i has (about) this duration; the model looks at the
                // differences the library will actually compute
                for (int q = i; q < N; ++q) p.tp[q + 1] = p.tp[q] + p.T[q];
                for (int q = 0; q < N; ++q) p.T[q] = p.tp[q + 1] - p.tp[q];
            }
        };
        const double ms = 1e-3;
        switch (kind)
        {
        case BAD_TIME_NAN: set_time(std::nan("")); break;
        case BAD_TIME_PINF: set_time(INFINITY); break;
        case BAD_TIME_NINF: set_time(-INFINITY); break;
        case BAD_TIME_ZERO: set_time(0.0); break;
        case BAD_TIME_NEG: set_time(-1.0); break;
        case BAD_TIME_BELOW: set_time(std::nextafter(ms, 0.0)); break;
        case BAD_TIME_DENORM: set_time(4.9e-324); break;
        case OK_TIME_AT: set_time(ms); break;
        case OK_TIME_ABOVE: set_time(std::nextafter(ms, 1.0)); break;
        case BAD_WP_NAN: case BAD_WP_PINF: case BAD_WP_NINF:
        {
            int i = (int)(((pos % (N + 1)) + (N + 1)) % (N + 1)), d = (int)(((pos2 % DIM) + DIM) % DIM);
            p.P(i, d) = kind == BAD_WP_NAN ? std::nan("") : (kind == BAD_WP_PINF ? INFINITY : -INFINITY);
            break;
        }
        case BAD_BC_NAN: case BAD_BC_PINF: case BAD_BC_NINF:
        {
            int f = (int)(((pos % 6) + 6) % 6), d = (int)(((pos2 % DIM) + DIM) % DIM);
            bc_field<DIM>(p.bc, f)(d) = kind == BAD_BC_NAN ? std::nan("") : (kind == BAD_BC_PINF ? INFINITY : -INFINITY);
            ctx.count(order_has_field(ORDER, f) ? "probe.bad_bc_field_used_by_order" : "probe.bad_bc_field_ignored_by_order");
            break;
        }
        case BAD_START_NAN: case BAD_START_INF:
        {
            double v = kind == BAD_START_NAN ? std::nan("") : ((pos & 1) ? INFINITY : -INFINITY);
            p.t0 = v;
            if (p.by_points)
            {
                p.tp[0] = v;
                for (int q = 0; q < N; ++q) p.T[q] = p.tp[q + 1] - p.tp[q];
            }
            break;
        }
        case OK_HUGE_WP:
        {
            // huge but finite coordinates (their sum overflows): still a valid problem by the statement
            int i = (int)(((pos % (N + 1)) + (N + 1)) % (N + 1));
            for (int d = 0; d < DIM; ++d) p.P(i, d) = (pos2 & 1) ? DBL_MAX : 1.2e308;
            break;
        }
        case OK_HUGE_BC:
        {
            int f = (int)(((pos % 6) + 6) % 6);
            for (int d = 0; d < DIM; ++d) bc_field<DIM>(p.bc, f)(d) = (d & 1) ? -DBL_MAX : DBL_MAX;
            break;
        }
        case OK_HUGE_TIME: set_time(1e300); break;
        case OK_HUGE_START:
            p.t0 = (pos & 1) ? -1e300 : 1e300;
            if (p.by_points)
            {
                // keep the differences exact: all time points become the huge start (zero durations would be invalid),
                // so only the durations overload carries this case
                p.by_points = false;
            }
            break;
        case BAD_ROWS_PLUS: p.P.conservativeResize(p.P.rows() + 1, DIM); p.P.row(p.P.rows() - 1).setZero(); break;
        case BAD_ROWS_MINUS: p.P.conservativeResize(p.P.rows() - 1, DIM); break;
        case BAD_EMPTY_TIMES:
            // no segments at all (one time point / empty duration vector), waypoints kept
            p.T.clear();
            p.tp.resize(1);
            break;
        case BAD_EMPTY_ALL:
            p.T.clear();
            p.tp.clear();
            p.P.resize(0, DIM);
            break;
        default: break;
        }
    }

    bool model_valid(const Problem<DIM> &p) const
    {
        if (p.by_points && p.tp.empty()) return false;
        double t0 = p.by_points ? p.tp[0] : p.t0;
        return validity_model<DIM>(p.T, p.P, t0, p.bc, ORDER);
    }

    void check_validity(int k, const char *when, bool after_init)
    {
        Handle &H = h[k];
        const bool want = H.m.configured && H.m.valid && !H.m.rejected_early;
        SIM_CHECK(H.o->isValid() == want, "validity_flag", when << ": isValid()=" << H.o->isValid() << " but the predicate gives " << want);
        SIM_CHECK(static_cast<bool>(*H.o) == want, "bool_conversion", when << ": operator bool disagrees with the predicate");
        if (H.m.configured && !H.m.rejected_early)
        {
            std::string msg = "sentinel";
            bool r = H.o->checkValidity(&msg);
            SIM_CHECK(r == want, "check_validity", when << ": checkValidity() returned " << r << " but the predicate gives " << want);
            SIM_CHECK(msg.empty() == want, "check_validity_message", when << ": checkValidity message " << (msg.empty() ? "empty" : "present") << " for a problem that is " << (want ? "valid" : "invalid"));
            SIM_CHECK(H.o->checkValidity() == want, "check_validity", when << ": checkValidity(nullptr) disagrees");
            msg_known[k] = msg_known[k] || !want; // an invalid verdict was just (re)reported
        }
        if (H.m.rejected_early)
        {
            // a read-only re-check of the (older) stored problem must not revive the rejected initialisation
            std::string ignored;
            (void)H.o->checkValidity(&ignored);
            (void)H.o->checkValidity();
            SIM_CHECK(H.o->isValid() == want && static_cast<bool>(*H.o) == want, "validity_flag",
                      when << ": isValid() changed after a read-only checkValidity() query (the last initialisation was rejected)");
        }
        if (msg_known[k] && (H.m.configured || H.m.rejected_early))
            SIM_CHECK(H.o->getLastError().empty() == want, "last_error", when << ": getLastError() is " << (H.o->getLastError().empty() ? "empty" : "non-empty") << " but the problem is "
                                                                                 << (want ? "valid" : "invalid"));
        (void)after_init;
        ctx.ival(want);
        ctx.count(want ? "probe.verdict_valid" : "probe.verdict_invalid");
    }

    void do_set_init(int k, int N, uint64_t seed, bool by_points, int bad, int64_t pos, int64_t pos2, int domain, bool only_start_time = false, bool only_boundary = false)
    {
        Handle &H = h[k];
        Problem<DIM> p = prob::gen_problem<DIM>(seed, N, ORDER, domain, by_points);
        if (only_start_time && H.m.configured && H.m.valid && !H.m.rejected_early)
        {
            // the same problem again, only the start time differs
            double nt0 = p.t0;
            p = H.m.prob;
            p.by_points = false;
            p.t0 = nt0;
            p.tp[0] = nt0;
            for (int i = 0; i < p.N(); ++i) p.tp[i + 1] = p.tp[i] + p.T[i];
            bad = BAD_NONE;
            ctx.count("probe.reinit_only_start_time");
        }
        else if (only_boundary && H.m.configured && H.m.valid && !H.m.rejected_early)
        {
            // the same durations, waypoints and start time again; only the fixed boundary derivatives differ
            auto nbc = p.bc;
            if (p.default_bc) nbc.start_velocity(0) = 0.75, nbc.end_acceleration(DIM - 1) = -0.5;
            p = H.m.prob;
            p.bc = nbc;
            p.default_bc = false;
            bad = BAD_NONE;
            ctx.count("probe.reinit_only_boundary_state");
        }
        // waypoints that the active spatial map can represent (sub-manifold maps)
        {
            SM sm = this->sm_of(H.m);
            for (int i = 0; i <= p.N(); ++i) p.P.row(i) = SMTraits<SM>::project(sm, Vec(p.P.row(i).transpose()), i).transpose();
        }
        bad = ((bad % BAD_N) + BAD_N) % BAD_N;
        apply_bad(p, bad, pos, pos2);
        if (bad != BAD_NONE) { ctx.count(std::string("fault.bad_input.") + kBadNames[bad]); ctx.mark_nontrivial(); }
        bool want = model_valid(p);
        bool was_valid = H.m.configured && H.m.valid;
        bool got = W::set_init(*H.o, p);
        const bool early = p.by_points && p.tp.empty();
        if (early) ctx.count("probe.rejected_before_storing");
        H.m.rejected_early = early;
        H.m.valid = want;
        if (!early) { H.m.configured = true; H.m.prob = p; }
        msg_known[k] = true;
        if (H.m.configured) ctx.count(was_valid ? (want ? "probe.init_valid_after_valid" : "probe.init_invalid_after_valid") : (want ? "probe.init_valid_after_invalid" : "probe.init_invalid_after_invalid"));
        SIM_CHECK(got == want, "init_verdict",
                  "setInitState (" << (by_points ? "time points" : "durations") << ", fault " << kBadNames[bad] << ", N=" << p.N() << ") returned " << got
                                   << " but the predicate gives " << want);
        check_validity(k, "right after setInitState", true);
        if (bad >= OK_HUGE_WP && bad <= OK_HUGE_START)
        {
            // accepted, but not something to evaluate: put a sane problem back
            Problem<DIM> q = prob::gen_problem<DIM>(seed ^ 0x9e37, std::max(1, N), ORDER, domain, false);
            bool ok = W::set_init(*H.o, q);
            H.m.prob = q;
            H.m.valid = true;
            H.m.rejected_early = false;
            SIM_CHECK(ok, "init_verdict", "a well-scaled problem was rejected right after a huge-but-finite one");
        }
    }

    WS *select_ws(int sel, int k, int N, std::unique_ptr<WS> &temp)
    {
        sel = ((sel % 5) + 5) % 5;
        if (sel == 0) { temp.reset(new WS()); return temp.get(); }
        if (sel == 4) return nullptr;
        int w = sel - 1;
        if (!ws[w]) ws[w].reset(new WS());
        if (this->ws_last_user[w] >= 0 && (this->ws_last_user[w] != k || this->ws_last_N[w] != N))
        {
            ctx.count("fault.stale_ws");
            if (this->ws_last_N[w] > N) ctx.count("probe.stale_ws_larger");
            if (this->ws_last_N[w] < N) ctx.count("probe.stale_ws_smaller");
            ctx.mark_nontrivial();
        }
        this->ws_last_user[w] = k;
        this->ws_last_N[w] = N;
        return ws[w].get();
    }

    // mode 6 = the seed-th permutation of the N segment indices in lexicographic order (enumeration of all schedules
    // of the serial-on-one-thread kind for small N)
    env::SimExecutor make_exec(int mode, uint64_t seed, int workers, int N = 0)
    {
        env::SimExecutor ex;
        ex.mode = ((mode % 7) + 7) % 7;
        ex.seed = seed;
        ex.workers = 2 + (((workers % 3) + 3) % 3);
        if (ex.mode == 6)
        {
            if (N < 1 || N > 8) { ex.mode = 2; return ex; }
            uint64_t fact = 1;
            for (int q = 2; q <= N; ++q) fact *= (uint64_t)q;
            uint64_t k = seed % fact;
            std::vector<int> pool(N);
            for (int q = 0; q < N; ++q) pool[q] = q;
            for (int q = N; q >= 1; --q)
            {
                fact /= (uint64_t)q;
                uint64_t idx = k / fact;
                k %= fact;
                ex.explicit_order.push_back(pool[(size_t)idx]);
                pool.erase(pool.begin() + (long)idx);
            }
            ctx.count("probe.enumerated_permutation");
        }
        return ex;
    }

    void snapshot_exposed(int k)
    {
        const Spline *sp = h[k].o->getOptimalSpline();
        if (!sp) { exposed_known[k] = false; return; }
        exposed_snapshot[k] = sp->getTrajectory().getCoefficients();
        exposed_known[k] = true;
    }
    void check_exposed_untouched(const char *when, int except)
    {
        for (int k = 0; k < W::kHandles; ++k)
        {
            if (!h[k].o) continue;
            const Spline *sp = h[k].o->getOptimalSpline();
            SIM_CHECK((sp != nullptr) == h[k].m.has_internal_ws, "builtin_workspace_presence",
                      when << ": handle " << k << " getOptimalSpline() is " << (sp ? "non-null" : "null") << " but the handle " << (h[k].m.has_internal_ws ? "owns" : "owns no") << " built-in workspace");
            for (int q = 0; q < k; ++q)
                if (h[q].o && sp) SIM_CHECK(h[q].o->getOptimalSpline() != sp, "shared_builtin_workspace", when << ": handles " << q << " and " << k << " expose the same spline object");
            if (k == except || !exposed_known[k] || !sp) continue;
            SIM_CHECK(bitwise_equal(sp->getTrajectory().getCoefficients(), exposed_snapshot[k]), "exposed_spline_disturbed",
                      when << ": the spline exposed by handle " << k << " changed although that handle was not evaluated");
        }
    }

    // one evaluation, with the oracles selected by `checks`
    // An evaluation that is cancelled from inside a user callback (the functor throws, the caller catches):
    // the fault.  The workspace it used is then handed to the evaluation under test.
    void aborted_eval(Handle &H, uint64_t xseed, WS *w, const env::SimExecutor &ex, bool three, int abort_functor, int64_t abort_call)
    {
        const Model &m = H.m;
        CC ca;
        ca.prog = &prog;
        ca.nseg = m.prob.N();
        int af = ((abort_functor % 6) + 6) % 6;
        ca.abort_functor = (af == 4 || af == 5) ? 0 : af;
        if (af == 5)
        {
            // condition-based failure: the running cost fails on every sample of two (or one) segments
            const int N = std::min(m.prob.N(), 62); // (the mask has 64 bits; long trajectories fail in their first 62 segments)
            ca.abort_seg_mask = (1ULL << (abort_call % N)) | (1ULL << ((abort_call / 7) % N));
        }
        long total = ca.abort_functor == 3 ? (long)m.prob.N() * (m.K + 1) : 1;
        ca.abort_call = (long)(((abort_call % total) + total) % total);
        Eigen::VectorXd xa = this->gen_x(m, xseed ^ 0x5bd1e995ULL, 0);
        bool thrown = false;
        env::Hooks &hk = env::hooks();
        if (af == 4 && W::kSimMaps)
        {
            // cancellation from inside a map call (layout rebuild, decode or back-substitution), simulated maps only;
            // the harness's own map calls are over by now (gen_x above), so the count starts at the library's first call
            hk.abort_map_seen = 0;
            hk.abort_map_fired = false;
            hk.abort_map_call = (long)(((abort_call % 37) + 37) % 37);
            hk.abort_map_armed = true;
            if (abort_call & 64) H.o->setOptimizationFlags(make_flags(m.mask)); // also hit the layout rebuild
        }
        try
        {
            (void)W::call_eval(*H.o, xa, ca, w, ex, three);
        }
        catch (const InjectedAbort &)
        {
            thrown = true;
        }
        hk.abort_map_armed = false;
        if (af == 4 && hk.abort_map_fired) ca.abort_functor = 4;
        if (af == 5) ca.abort_functor = 5;
        if (!w) H.m.has_internal_ws = true;
        if (thrown)
        {
            ctx.count("fault.callback_abort");
            ctx.count(std::string("fault.callback_abort.functor") + std::to_string(ca.abort_functor));
            ctx.mark_nontrivial();
        }
    }

    void do_eval(int k, uint64_t xseed, int xmode, int ws_sel, int ex_mode, uint64_t ex_seed, int workers, bool three, int checks, int abort_functor = 0,
                 int64_t abort_call = 0)
    {
        Handle &H = h[k];
        const Model &m = H.m;
        Eigen::VectorXd x = this->gen_x(m, xseed, xmode);
        std::unique_ptr<WS> temp;
        WS *w = select_ws(ws_sel, k, m.prob.N(), temp);
        Trace tr;
        tr.reset(m.prob.N());
        CC cc;
        cc.prog = &prog;
        cc.nseg = m.prob.N();
        cc.trace = (checks & CHK_TRACE) ? &tr : nullptr;
        env::SimExecutor ex = make_exec(ex_mode, ex_seed, workers, m.prob.N());
        if (ex.mode != 0) ctx.mark_nontrivial();
        if (abort_functor % 6 != 0)
        {
            aborted_eval(H, xseed, w, ex, three, abort_functor, abort_call);
            if (!w) snapshot_exposed(k);
        }
        std::unique_ptr<Opt> nested_opt;
        std::unique_ptr<WS> nested_ws;
        Eigen::VectorXd nested_x, nested_g;
        CC nested_cc;
        if (abort_functor % 6 == 0 && (abort_call & (1 << 21)))
        {
            // the running cost re-enters the library: it evaluates ANOTHER optimizer of the same type (its own workspace)
            // in the middle of this evaluation's integration loop, on the same thread
            Model other = m;
            nested_opt = this->make_twin(other);
            nested_ws.reset(new WS());
            nested_x = this->gen_x(other, xseed ^ 0xabcdef, 0);
            nested_cc.prog = &prog;
            nested_cc.nseg = other.prob.N();
            cc.reenter_call = (long)(abort_call % std::max<long>(1, (long)m.prob.N() * (m.K + 1)));
            Opt *no = nested_opt.get();
            WS *nw = nested_ws.get();
            cc.reenter = [no, nw, &nested_x, &nested_g, &nested_cc, three]() {
                struct Pause
                {
                    bool saved;
                    Pause() : saved(env::hooks().record_backward) { env::hooks().record_backward = false; }
                    ~Pause() { env::hooks().record_backward = saved; }
                } pause; // the nested evaluation's map calls are not the ones being recorded
                env::SimTimeCost<DIM> tcn{&nested_cc};
                env::SimWaypointCost<DIM> wcn{&nested_cc};
                env::SimRunningCost<DIM> rcn{&nested_cc};
                nested_g.resize(nested_x.size());
                if (three) (void)no->evaluate(nested_x, nested_g, tcn, wcn, rcn, nw);
                else (void)no->evaluate(nested_x, nested_g, tcn, rcn, nw);
            };
            ctx.count("fault.reentrant_callback");
            ctx.mark_nontrivial();
        }
        EvalResult got;
        if (ex.mode == 0 && (ex_seed & 1))
        {
            // the library's own serial executor through the defaulted argument
            env::SimTimeCost<DIM> tc{&cc};
            env::SimWaypointCost<DIM> wc{&cc};
            env::SimRunningCost<DIM> rc{&cc};
            got.grad = Eigen::VectorXd::Constant(x.size(), 777.0);
            got.cost = three ? H.o->evaluate(x, got.grad, tc, wc, rc, w) : H.o->evaluate(x, got.grad, tc, rc, w);
            ctx.count("probe.default_serial_executor");
        }
        else
        {
            env::Hooks &hkk = env::hooks();
            if (checks & CHK_TRACE) { NoRace g; hkk.backward_args.clear(); hkk.record_backward = true; }
            got = W::call_eval(*H.o, x, cc, w, ex, three);
            hkk.record_backward = false;
            if ((checks & CHK_TRACE) && W::kSimMaps)
            {
                // the time map's backward rule is handed, per segment, the variable and exactly the duration decoded from it
                Problem<DIM> q = this->decode_model(m, x);
                SIM_CHECK((int)hkk.backward_args.size() == m.prob.N(), "time_map_backward_calls", "backward() of the time map called " << hkk.backward_args.size() << " times for " << m.prob.N() << " segments");
                for (int i = 0; i < m.prob.N(); ++i)
                    SIM_CHECK(same_bits(hkk.backward_args[(size_t)i].first, x(i)) && same_bits(hkk.backward_args[(size_t)i].second, q.T[(size_t)i]), "time_map_backward_argument",
                              "backward() for segment " << i << " received (tau=" << hkk.backward_args[(size_t)i].first << ", T=" << fmt_double(hkk.backward_args[(size_t)i].second)
                                                        << ") instead of (x_i, toTime(x_i)=" << fmt_double(q.T[(size_t)i]) << ")");
                ctx.count("oracle.time_map_backward_arguments");
            }
        }
        if (!w) { H.m.has_internal_ws = true; ctx.count("probe.builtin_workspace_used"); }
        const bool finite_expected = prog.style != 2 && xmode != 5;
        if (finite_expected) SIM_CHECK(std::isfinite(got.cost), "cost_finite", "cost is not finite on a well-scaled problem: " << got.cost);
        if (!std::isfinite(got.cost)) { checks &= ~(CHK_TRACE | CHK_FD); ctx.count("probe.non_finite_cost"); }
        if (checks & CHK_TWIN) this->check_vs_twin(m, x, three, got, "evaluate");
        if (checks & CHK_TRACE)
        {
            const Spline &spl = w ? w->spline : *H.o->getOptimalSpline();
            this->check_trace(m, x, three, tr, spl, got.cost);
        }
        if (checks & CHK_FD) this->check_fd(m, x, three, got, xmode == 2);
        if ((checks & CHK_EXPOSED) && !w) this->check_exposed_spline(H, x);
        if (!w) snapshot_exposed(k);
        check_exposed_untouched("after evaluate", k);
    }

    void do_concurrent(const Op &o)
    {
        int k = pick(o.I(0), true);
        if (k < 0) return;
        int n = 2 + (int)(((o.I(1) % 3) + 3) % 3);
        bool cold = (o.I(2) & 1) != 0;
        uint64_t seed = (uint64_t)o.I(3);
        int fault = (int)(((o.I(4) % 3) + 3) % 3);
        int target = k;
        Sched &S = Sched::get();
        // lifetime faults act on the object the evaluated optimizer was copied from
        int src = -1;
        if (fault != 0)
        {
            int dst = (k + 1) % W::kHandles;
            if (h[dst].o) this->free_opt(h[dst].o);
            h[dst].o = this->new_opt(*h[k].o);
            h[dst].m = h[k].m;
            exposed_known[dst] = false;
            if (h[k].m.has_internal_ws) snapshot_exposed(dst);
            msg_known[dst] = false;
            src = k;
            target = dst;
        }
        Handle &H = h[target];
        const bool tiny_durations = (o.I(5) & 2) != 0;
        const bool ws_copies = (o.I(5) & 4) != 0;
        if (ws_copies)
        {
            // the evaluators' workspaces will be copies of one workspace that has already been used, and the
            // integration resolution changes between the copy and the concurrent phase
            if (!ws[0]) ws[0].reset(new WS());
            CC c0;
            c0.prog = &prog;
            c0.nseg = H.m.prob.N();
            Eigen::VectorXd x0 = this->gen_x(H.m, seed ^ 0x77, 0);
            (void)W::call_eval(*H.o, x0, c0, ws[0].get(), SplineTrajectory::SerialExecutor(), true);
            this->ws_last_user[0] = target;
            this->ws_last_N[0] = H.m.prob.N();
        }
        std::vector<std::unique_ptr<WS>> copies;
        if (ws_copies)
        {
            for (int e = 0; e < n; ++e) copies.emplace_back(new WS(*ws[0]));
            H.m.K = 1 + (H.m.K + 7) % 64;
            H.o->setIntegralNumSteps(H.m.K);
            ctx.count("probe.concurrent_on_workspace_copies_after_K_change");
        }
        const Model m = H.m;
        if (cold)
        {
            H.o->setOptimizationFlags(make_flags(m.mask)); // (re)configuration: no single-threaded call follows it
            ctx.count("fault.cold_start");
        }
        else
            (void)H.o->getDimension();
        Rng r(seed, 0xc0c);
        std::vector<Eigen::VectorXd> xs(n);
        std::vector<std::unique_ptr<WS>> own(n);
        std::vector<WS *> wsp(n);
        std::vector<env::SimExecutor> exs(n);
        std::vector<bool> three(n);
        std::vector<EvalResult> res(n);
        std::vector<CC> ccs(n);
        std::vector<int> abort_f(n, 0);
        std::vector<int64_t> abort_c(n, 0);
        const bool aborts = (o.I(5) & 1) != 0;
        for (int e = 0; e < n; ++e)
        {
            xs[e] = this->gen_x(m, r.next(), tiny_durations ? 5 : 0);
            if (aborts && r.chance(0.5)) { abort_f[e] = 1 + (int)r.below(3); abort_c[e] = (int64_t)r.below(1u << 20); }
            // each evaluator has its own workspace; the first ones may be veterans from the pool
            bool veteran = e < W::kWS && r.chance(0.4);
            if (ws_copies) wsp[e] = copies[(size_t)e].get();
            else if (veteran)
            {
                std::unique_ptr<WS> tmp;
                wsp[e] = select_ws(1 + e, target, m.prob.N(), tmp);
            }
            else { own[e].reset(new WS()); wsp[e] = own[e].get(); }
            {
                int em = (int)r.below(6);
                uint64_t es = r.next();
                int ew = (int)r.below(3);
                exs[e] = make_exec(em, es, ew);
            }
            three[e] = r.chance(0.7);
            ccs[e].prog = &prog;
            ccs[e].nseg = m.prob.N();
        }
        // some evaluators may work on a SECOND optimizer object: a copy taken right now (while the layout is still cold,
        // if this is a cold start) and given another integration resolution; both objects are evaluated at the same time
        std::unique_ptr<Opt> second;
        Model m2 = m;
        std::vector<char> on_second((size_t)n, 0);
        if ((o.I(5) & 8) && !ws_copies)
        {
            second.reset(new Opt(*H.o));
            m2.K = 1 + (m.K + 100) % 256;
            second->setIntegralNumSteps(m2.K);
            for (int e = 0; e < n; ++e) on_second[(size_t)e] = (char)(e & 1);
            ctx.count("probe.concurrent_on_two_optimizers");
        }
        std::vector<int> ids;
        Opt *optr = H.o;
        Opt *optr2 = second.get();
        for (int e = 0; e < n; ++e)
            ids.push_back(S.spawn([&, e, optr, optr2]() {
                Opt *use = on_second[(size_t)e] ? optr2 : optr;
                yield_point("evaluator_start");
                if (abort_f[e])
                {
                    // this evaluator's first attempt is cancelled from inside a callback while the others keep running
                    CC ca;
                    ca.prog = &prog;
                    ca.nseg = m.prob.N();
                    ca.abort_functor = abort_f[e];
                    long total = abort_f[e] == 3 ? (long)m.prob.N() * (m.K + 1) : 1;
                    ca.abort_call = (long)(abort_c[e] % total);
                    try { (void)W::call_eval(*use, xs[(e + 1) % n], ca, wsp[e], exs[e], three[e]); }
                    catch (const InjectedAbort &) { ctx.count("fault.callback_abort"); }
                }
                res[e] = W::call_eval(*use, xs[e], ccs[e], wsp[e], exs[e], three[e]);
            }, "evaluator"));
        bool fault_done = false;
        if (fault != 0)
            ids.push_back(S.spawn([&]() {
                // let the evaluators get going, then hit the source
                int waits = (int)r.below(6);
                for (int q = 0; q < waits; ++q) yield_point("fault_wait");
                if (S.live_fibers() > 1) ctx.count("probe.fault_while_evaluators_suspended");
                if (fault == 1)
                {
                    this->free_opt(h[src].o);
                    h[src].o = nullptr;
                    ctx.count("fault.src_destroy");
                }
                else
                {
                    // overwrite the source with a different configuration (other default maps, other problem)
                    Model mm;
                    mm.tm_kind = (m.tm_kind + 1) % 3; mm.tm_param = m.tm_param * 1.5; mm.sm_kind = (m.sm_kind + 1) % 5; mm.sm_param = m.sm_param * 0.75;
                    this->set_default_map_hooks(mm);
                    Opt other;
                    uint64_t s2 = r.next();
                    int n2 = 1 + (int)r.below(4);
                    Problem<DIM> p2 = prob::gen_problem<DIM>(s2, n2, ORDER, 2, false);
                    W::set_init(other, p2);
                    *h[src].o = other;
                    mm.configured = true; mm.valid = true; mm.prob = p2;
                    h[src].m = mm;
                    exposed_known[src] = false;
                    msg_known[src] = false;
                    ctx.count("fault.src_mutate");
                }
                fault_done = true;
            }, "fault"));
        S.join(ids);
        ctx.mark_nontrivial();
        ctx.count("probe.concurrent_phase");
        ctx.count(std::string("probe.concurrent_evaluators_") + std::to_string(n));
        for (int e = 0; e < n; ++e) this->check_vs_twin(on_second[(size_t)e] ? m2 : m, xs[e], three[e], res[e], cold ? "concurrent evaluate (cold)" : "concurrent evaluate (warm)");
        if ((o.I(5) & 16) && fault == 0)
        {
            // strictly sequential use from another thread: one fiber evaluates WITHOUT a workspace (the built-in one),
            // is joined, and the exposed spline must be the one of that evaluation
            Eigen::VectorXd xo = this->gen_x(m, seed ^ 0x0dd, 1);
            EvalResult ro;
            CC co;
            co.prog = &prog;
            co.nseg = m.prob.N();
            Opt *op1 = H.o;
            std::vector<int> one;
            one.push_back(S.spawn([&, op1]() { ro = W::call_eval(*op1, xo, co, nullptr, SplineTrajectory::SerialExecutor(), true); }, "other-thread"));
            S.join(one);
            H.m.has_internal_ws = true;
            this->check_vs_twin(H.m, xo, true, ro, "evaluate with the built-in workspace from another thread");
            this->check_exposed_spline(H, xo);
            snapshot_exposed(target);
            ctx.count("probe.builtin_workspace_from_other_thread");
        }
        (void)fault_done;
        check_exposed_untouched("after concurrent phase", -1);
    }

    void do_checkgrad(const Op &o)
    {
        int k = pick(o.I(0), true);
        if (k < 0) return;
        Handle &H = h[k];
        const Model &m = H.m;
        const int N = m.prob.N();
        Eigen::VectorXd x = this->gen_x(m, (uint64_t)o.I(1), (o.I(8) & 1) ? 3 : 0);
        const int n = (int)x.size();
        std::unique_ptr<WS> temp;
        WS *w = select_ws((int)o.I(2), k, N, temp);
        bool three = (o.I(3) & 1) != 0;
        env::GradFault gf;
        gf.functor = (int)(((o.I(4) % 5) + 5) % 5);
        if (gf.functor == 2 && !three) gf.functor = 3;
        gf.slot = gf.functor == 1 ? (int)(((o.I(5) % N) + N) % N) : gf.functor == 2 ? (int)(((o.I(5) % (N + 1)) + (N + 1)) % (N + 1)) : (int)(((o.I(5) % 6) + 6) % 6);
        gf.comp = (int)(((o.I(6) % DIM) + DIM) % DIM);
        gf.delta = gf.functor ? o.D(0, 1.0) : 0.0;
        bool defaults = (o.I(7) & 1) != 0;
        EvalResult clean = this->twin_eval(m, x, three);
        EvalResult faulty = gf.functor ? this->twin_eval(m, x, three, &gf) : clean;
        const double eps = 1e-6;
        // "the tolerance": relative to the gradient norm plus the rounding-noise floor of a central difference with this
        // step (eps_machine * |cost| / eps per component); the measured worst err/tol is in the margin.selfcheck counters
        const double tol = defaults ? 1e-4 : 3e-4 * (1.0 + clean.grad.norm()) + 1000.0 * DBL_EPSILON * std::fabs(clean.cost) * std::sqrt((double)n) / eps;
        Trace tr;
        tr.reset(N);
        CC cc;
        cc.prog = &prog;
        cc.nseg = N;
        cc.trace = &tr;
        cc.fault = gf;
        env::SimTimeCost<DIM> tc{&cc};
        env::SimWaypointCost<DIM> wc{&cc};
        env::SimRunningCost<DIM> rc{&cc};
        if (o.I(9) > 0)
        {
            // the self-check is cancelled from inside a functor somewhere in its finite-difference loop; the caller catches
            // that and goes on using the same workspace: the following evaluation must be an ordinary one
            CC ca;
            ca.prog = &prog;
            ca.nseg = N;
            ca.abort_functor = 3;
            long per_eval = (long)N * (m.K + 1);
            ca.abort_call = per_eval + (long)(o.I(9) % std::max<long>(1, 2L * n * per_eval));
            env::SimTimeCost<DIM> tca{&ca};
            env::SimWaypointCost<DIM> wca{&ca};
            env::SimRunningCost<DIM> rca{&ca};
            bool thrown = false;
            try
            {
                if (three) (void)H.o->checkGradients(x, tca, wca, rca, w, eps, tol);
                else (void)H.o->checkGradients(x, tca, rca, w, eps, tol);
            }
            catch (const InjectedAbort &) { thrown = true; }
            if (!w) H.m.has_internal_ws = true;
            if (thrown) { ctx.count("fault.callback_abort_inside_selfcheck"); ctx.mark_nontrivial(); }
            CC cb;
            cb.prog = &prog;
            cb.nseg = N;
            EvalResult after = W::call_eval(*H.o, x, cb, w, SplineTrajectory::SerialExecutor(), three);
            this->check_vs_twin(m, x, three, after, "evaluate after a cancelled checkGradients on the same workspace");
        }
        typename Opt::GradientCheckResult res;
        {
            // part of the runs: the caller's floating-point environment traps invalid operations and divisions by zero
            // (feenableexcept); a self-check of finite, correct data must not raise either
            struct Traps
            {
                int old = 0;
                bool on;
                explicit Traps(bool enable) : on(enable) { if (on) { std::feclearexcept(FE_ALL_EXCEPT); old = feenableexcept(FE_INVALID | FE_DIVBYZERO); } }
                ~Traps() { if (on) { std::feclearexcept(FE_ALL_EXCEPT); fedisableexcept(FE_ALL_EXCEPT); if (old > 0) feenableexcept(old); } }
            } traps((o.I(7) & 2) != 0 && prog.style != 2);
            if (traps.on) ctx.count("probe.selfcheck_with_fp_traps");
            if (three) res = defaults ? H.o->checkGradients(x, tc, wc, rc, w) : H.o->checkGradients(x, tc, wc, rc, w, eps, tol);
            else res = defaults ? H.o->checkGradients(x, tc, rc, w) : H.o->checkGradients(x, tc, rc, w, eps, tol);
        }
        if (!w) H.m.has_internal_ws = true;
        if (gf.functor) { ctx.count(std::string("fault.grad_fault.functor") + std::to_string(gf.functor)); ctx.mark_nontrivial(); }
        // both vectors are what an outside observer computes from the optimizer's own cost
        SIM_CHECK(res.analytical.size() == n && res.numerical.size() == n, "selfcheck_sizes", "result vectors have sizes " << res.analytical.size() << "/" << res.numerical.size() << " for " << n << " variables");
        for (int i = 0; i < n; ++i)
            SIM_CHECK(same_bits(res.analytical(i), faulty.grad(i)), "selfcheck_analytical", "analytical[" << i << "]=" << res.analytical(i) << " is not the gradient evaluate() writes at x (" << faulty.grad(i) << ")");
        Eigen::VectorXd xt = x;
        for (int i = 0; i < n; ++i)
        {
            double old = xt(i);
            xt(i) = old + eps;
            double cp = this->twin_eval(m, xt, three, &gf).cost;
            xt(i) = old - eps;
            double cm = this->twin_eval(m, xt, three, &gf).cost;
            xt(i) = old;
            double want = (cp - cm) / (2 * eps);
            SIM_CHECK(same_bits(res.numerical(i), want), "selfcheck_numerical",
                      "numerical[" << i << "]=" << res.numerical(i) << " is not (cost(x+eps e_i)-cost(x-eps e_i))/(2 eps)=" << want << " of the optimizer's own cost");
        }
        Eigen::VectorXd diff = res.analytical - res.numerical;
        double en = diff.norm(), gn = res.analytical.norm();
        SIM_CHECK(std::fabs(res.error_norm - en) <= 1e-12 * (en + 1e-300), "selfcheck_error_norm", "error_norm " << res.error_norm << " vs recomputed " << en);
        double rel = gn > 1e-9 ? en / gn : en;
        SIM_CHECK(std::fabs(res.rel_error - rel) <= 1e-12 * (rel + 1e-300), "selfcheck_rel_error", "rel_error " << res.rel_error << " vs recomputed " << rel);
        SIM_CHECK(res.valid == (res.error_norm < tol), "selfcheck_verdict_rule", "valid=" << res.valid << " but error_norm " << res.error_norm << " and tolerance " << tol);
        if (!defaults)
        {
            if (gf.functor == 0)
            {
                SIM_CHECK(res.valid, "selfcheck_false_failure", "correct functors reported as FAILED: error_norm " << res.error_norm << " tolerance " << tol);
                double ratio = res.error_norm / tol;
                ctx.count(ratio < 1e-3 ? "margin.selfcheck.err_over_tol_lt_1e-3" : ratio < 1e-2 ? "margin.selfcheck.err_over_tol_lt_1e-2" : ratio < 1e-1 ? "margin.selfcheck.err_over_tol_lt_1e-1" : "margin.selfcheck.err_over_tol_lt_1");
            }
            else
            {
                double effect = (faulty.grad - clean.grad).norm();
                if (effect > 100.0 * tol)
                {
                    SIM_CHECK(!res.valid, "selfcheck_missed_fault", "a gradient component wrong by " << effect << " (tolerance " << tol << ") was reported as PASSED; functor " << gf.functor << " slot " << gf.slot);
                    ctx.count("probe.grad_fault_judged");
                }
                else
                    ctx.count(effect < tol / 10 ? "probe.grad_fault_too_small" : "probe.grad_fault_ambiguous_not_judged");
            }
        }
        // the workspace is left at x
        {
            if (!w) SIM_CHECK(H.o->getOptimalSpline() != nullptr, "selfcheck_restore", "after checkGradients with the built-in workspace getOptimalSpline() is null");
            const Spline &spl = w ? w->spline : *H.o->getOptimalSpline();
            Problem<DIM> q = this->decode_model(m, x);
            SIM_CHECK(bitwise_equal_vec(spl.getTimeSegments(), q.T) && bitwise_equal(spl.getSpacePoints(), q.P), "selfcheck_restore",
                      "after checkGradients the workspace spline is not the one defined by the checked decision vector");
            for (int f = 0; f < 6; ++f)
                if (order_has_field(ORDER, f))
                    SIM_CHECK(bitwise_equal(bc_field<DIM>(spl.getBoundaryConditions(), f), bc_field<DIM>(q.bc, f)), "selfcheck_restore", "boundary field " << f << " of the workspace spline is not that of x");
        }
        // evaluation history seen by the time cost: x, then (x+eps e_i, x-eps e_i) for every i, then x again
        SIM_CHECK((int)tr.time_args.size() == 2 * n + 2, "selfcheck_history", "the cost was evaluated " << tr.time_args.size() << " times, expected 2*n+2=" << 2 * n + 2);
        {
            TM tm = this->tm_of(m);
            auto times_of = [&](const Eigen::VectorXd &y) { std::vector<double> T(N); for (int i = 0; i < N; ++i) T[i] = tm.toTime(y(i)); return T; };
            SIM_CHECK(bitwise_equal_vec(tr.time_args.front(), times_of(x)) && bitwise_equal_vec(tr.time_args.back(), times_of(x)), "selfcheck_history", "first/last evaluation not at x");
            Eigen::VectorXd y = x;
            for (int i = 0; i < std::min(n, N); ++i)
            {
                y(i) = x(i) + eps;
                SIM_CHECK(bitwise_equal_vec(tr.time_args[1 + 2 * i], times_of(y)), "selfcheck_history", "evaluation " << 1 + 2 * i << " is not at x+eps e_" << i);
                y(i) = x(i) - eps;
                SIM_CHECK(bitwise_equal_vec(tr.time_args[2 + 2 * i], times_of(y)), "selfcheck_history", "evaluation " << 2 + 2 * i << " is not at x-eps e_" << i);
                y(i) = x(i);
            }
        }
        if (!w) snapshot_exposed(k);
        ctx.val(res.error_norm);
        ctx.count("oracle.selfcheck");
    }

    void run(const Plan &plan)
    {
        env::Hooks &hk = env::hooks();
        hk = env::Hooks();
        plan_prop_is_c16 = plan.prop == "C16";
        const int64_t ycfg = plan.CI(0);
        hk.yield_in_maps = (ycfg & 1) != 0;
        hk.yield_in_costs = (ycfg & 2) != 0;
        hk.yield_in_executor = (ycfg & 4) != 0;
        Sched::get().set_sticky((int)(200 + (plan.CI(1) % 7) * 100));
        const int domain = 2;
        prog = env::CostProgram<DIM>::make((uint64_t)plan.CI(2, 1), 96, ORDER, plan.CI(3) & 1, (int)(((plan.CI(7) % 5) + 5) % 5));
        for (int q = 0; q < W::kUserMaps; ++q)
        {
            // (C16 plans get a user time map with a restricted range: the verdict must not depend on the map)
            user_tm.emplace_back(new TM(TMTraits<TM>::make(plan.prop == "C16" && q == 1 ? 3 : q % 3, 0.75 + 0.5 * q)));
            user_sm.emplace_back(new SM(SMTraits<SM>::make((int)((plan.CI(4) + q) % 5), 1.0 + 0.25 * q)));
        }
        // handle 0 exists from the start and is configured by the first operations
        construct(0, (int)(plan.CI(5) % 3), 1.0 + 0.25 * (plan.CI(5) % 4), (int)(plan.CI(6) % 5), 1.0 + 0.125 * (plan.CI(6) % 3));
        for (const Op &o : plan.ops)
        {
            const int kind = ((o.kind % OP_N) + OP_N) % OP_N;
            ctx.ev(kNames[kind]);
            ctx.count(std::string("ops.") + kNames[kind]);
            switch (kind)
            {
            case OP_CONSTRUCT:
            {
                int k = (int)(((o.I(0) % W::kHandles) + W::kHandles) % W::kHandles);
                construct(k, (int)(((o.I(1) % 3) + 3) % 3), 0.75 + 0.25 * (((o.I(2) % 5) + 5) % 5), (int)(((o.I(3) % 5) + 5) % 5), 0.75 + 0.25 * (((o.I(4) % 4) + 4) % 4));
                break;
            }
            case OP_SET_INIT:
            {
                int k = pick(o.I(0), false);
                if (k < 0) break;
                int N = 1 + (int)(((o.I(1) - 1) % 12 + 12) % 12);
                if (o.I(7) & 2) N = 65 + (int)(((o.I(1) % 26) + 26) % 26); // long trajectories (more than 64 segments)
                do_set_init(k, N, (uint64_t)o.I(2), (o.I(3) & 1) != 0, (int)o.I(4), o.I(5), o.I(6), domain, (o.I(7) & 1) != 0, (o.I(7) & 4) != 0);
                ctx.count("fault.reconfig");
                break;
            }
            case OP_SET_FLAGS:
            {
                int k = pick(o.I(0), false);
                if (k < 0) break;
                h[k].m.mask = (int)(o.I(1) & 255);
                h[k].o->setOptimizationFlags(make_flags(h[k].m.mask));
                ctx.count("fault.reconfig");
                if (h[k].m.valid) this->check_dimension(h[k], "after setOptimizationFlags");
                break;
            }
            case OP_SET_TMAP:
            {
                int k = pick(o.I(0), false);
                if (k < 0) break;
                int u = (int)(((o.I(1) % (W::kUserMaps + 1)) + (W::kUserMaps + 1)) % (W::kUserMaps + 1)) - 1;
                h[k].m.tm_user = u;
                h[k].o->setTimeMap(u >= 0 ? user_tm[u].get() : nullptr);
                ctx.count(u >= 0 ? "probe.user_time_map" : "probe.default_time_map_restored");
                break;
            }
            case OP_SET_SMAP:
            {
                int k = pick(o.I(0), false);
                if (k < 0) break;
                int u = (int)(((o.I(1) % (W::kUserMaps + 1)) + (W::kUserMaps + 1)) % (W::kUserMaps + 1)) - 1;
                h[k].m.sm_user = u;
                h[k].o->setSpatialMap(u >= 0 ? user_sm[u].get() : nullptr);
                ctx.count(u >= 0 ? "probe.user_spatial_map" : "probe.default_spatial_map_restored");
                ctx.count("fault.reconfig");
                if (h[k].m.valid) this->check_dimension(h[k], "after setSpatialMap");
                break;
            }
            case OP_SET_RHO:
            {
                int k = pick(o.I(0), false);
                if (k < 0) break;
                static const double vals[] = {0.0, 1e-6, 1e-3, 0.05, 1.0, 1e-16, 4.9e-324};
                h[k].m.rho = vals[((o.I(1) % 7) + 7) % 7] * ((plan.CI(3) & 1) ? 1e-3 : 1.0);
                h[k].o->setEnergyWeights(h[k].m.rho);
                break;
            }
            case OP_SET_K:
            {
                int k = pick(o.I(0), false);
                if (k < 0) break;
                h[k].m.K = 1 + (int)(((o.I(1) - 1) % 256 + 256) % 256);
                h[k].o->setIntegralNumSteps(h[k].m.K);
                break;
            }
            case OP_GET_DIM:
            {
                int k = pick(o.I(0), true);
                if (k < 0) break;
                this->check_dimension(h[k], "getDimension");
                break;
            }
            case OP_INIT_GUESS:
            {
                int k = pick(o.I(0), true);
                if (k < 0) break;
                this->check_initial_guess(h[k]);
                break;
            }
            case OP_EVAL:
            {
                int k = pick(o.I(0), true);
                if (k < 0) break;
                do_eval(k, (uint64_t)o.I(1), (int)(((o.I(2) % 7) + 7) % 7), (int)o.I(3), (int)o.I(4), (uint64_t)o.I(5), (int)o.I(6), (o.I(7) & 1) != 0, (int)o.I(8), (int)o.I(9), o.I(10));
                break;
            }
            case OP_CONCURRENT: do_concurrent(o); break;
            case OP_COPY:
            case OP_ASSIGN:
            {
                int s = pick(o.I(0), false);
                if (s < 0) break;
                int dst = (int)(((o.I(1) % W::kHandles) + W::kHandles) % W::kHandles);
                if (dst == s) dst = (dst + 1) % W::kHandles;
                const bool by_move = (o.I(3) & 1) != 0 && live_count() >= 1;
                if (kind == OP_COPY)
                {
                    if (h[dst].o) this->free_opt(h[dst].o);
                    if (by_move) { h[dst].o = this->new_opt(std::move(*h[s].o)); ctx.count("probe.move_constructed"); }
                    else h[dst].o = this->new_opt(*h[s].o);
                    ctx.count("probe.copy_constructed");
                }
                else if (by_move)
                {
                    if (!h[dst].o) construct(dst, 2, 3.0, 3, 2.0);
                    *h[dst].o = std::move(*h[s].o);
                    ctx.count("probe.move_assigned");
                }
                else
                {
                    if (!h[dst].o) construct(dst, 2, 3.0, 3, 2.0);
                    if (h[dst].m.has_internal_ws && !h[s].m.has_internal_ws) ctx.count("probe.assign_ws_owner_from_non_owner");
                    if (h[dst].m.has_internal_ws && h[s].m.has_internal_ws) ctx.count("probe.assign_ws_owner_from_owner");
                    if (!h[dst].m.has_internal_ws && h[s].m.has_internal_ws) ctx.count("probe.assign_non_owner_from_ws_owner");
                    *h[dst].o = *h[s].o;
                }
                h[dst].m = h[s].m;
                msg_known[dst] = false;
                exposed_known[dst] = false;
                if (h[dst].m.has_internal_ws) { exposed_snapshot[dst] = exposed_snapshot[s]; exposed_known[dst] = exposed_known[s]; }
                ctx.mark_nontrivial();
                if (by_move)
                {
                    // the moved-from object is in a valid but unspecified state: it is destroyed, the target must stand alone
                    Eigen::VectorXd xm;
                    this->free_opt(h[s].o);
                    h[s].o = nullptr;
                    h[s].m = Model();
                    exposed_known[s] = false;
                    ctx.count("fault.src_destroy");
                    if (h[dst].m.valid && evaluable(h[dst].m))
                    {
                        xm = this->gen_x(h[dst].m, (uint64_t)o.I(2), 0);
                        CC cc;
                        cc.prog = &prog;
                        cc.nseg = h[dst].m.prob.N();
                        WS w2;
                        EvalResult b = W::call_eval(*h[dst].o, xm, cc, &w2, SplineTrajectory::SerialExecutor(), true);
                        this->check_vs_twin(h[dst].m, xm, true, b, "evaluate on a moved-to optimizer after the source was destroyed");
                    }
                    check_exposed_untouched("after move", -1);
                    break;
                }
                check_exposed_untouched("after copy/assign", -1);
                // the copy evaluates identically to its source, right away
                if (h[s].m.valid && evaluable(h[s].m))
                {
                    Eigen::VectorXd x = this->gen_x(h[s].m, (uint64_t)o.I(2), 0);
                    CC cc;
                    cc.prog = &prog;
                    cc.nseg = h[s].m.prob.N();
                    WS w1, w2;
                    EvalResult a = W::call_eval(*h[s].o, x, cc, &w1, SplineTrajectory::SerialExecutor(), true);
                    EvalResult b = W::call_eval(*h[dst].o, x, cc, &w2, SplineTrajectory::SerialExecutor(), true);
                    SIM_CHECK(same_bits(a.cost, b.cost) && bitwise_equal(a.grad, b.grad), "copy_evaluates_differently", "a copy and its source return different cost/gradient for the same decision vector");
                    this->check_vs_twin(h[dst].m, x, true, b, "evaluate on a fresh copy");
                }
                check_validity(dst, "on a copy", false);
                break;
            }
            case OP_SELF_ASSIGN:
            {
                int s = pick(o.I(0), false);
                if (s < 0) break;
                Opt *alias = h[s].o;
                *h[s].o = *alias;
                check_exposed_untouched("after self-assignment", -1);
                ctx.count("probe.self_assignment");
                break;
            }
            case OP_DESTROY:
            {
                int k = pick(o.I(0), false);
                if (k < 0 || live_count() <= 1) break;
                this->free_opt(h[k].o);
                h[k].o = nullptr;
                h[k].m = Model();
                exposed_known[k] = false;
                ctx.count("fault.src_destroy");
                ctx.mark_nontrivial();
                break;
            }
            case OP_MUTATE_USER_MAP:
            {
                if constexpr (W::kSimMaps)
                {
                    int u = (int)(((o.I(0) % W::kUserMaps) + W::kUserMaps) % W::kUserMaps);
                    if ((o.I(1) & 3) == 1) user_tm[u]->a = 0.5 + 0.25 * (((o.I(2) % 6) + 6) % 6);
                    else if ((o.I(1) & 3) == 0) user_sm[u]->s = 0.75 + 0.25 * (((o.I(2) % 6) + 6) % 6);
                    else
                    {
                        // the user changes the per-point dimensions of a map in place and registers it again (same
                        // address) with every optimizer that uses it, as the setter's contract requires
                        user_sm[u]->kind = (int)(((o.I(2) % 5) + 5) % 5);
                        for (int k = 0; k < W::kHandles; ++k)
                            if (h[k].o && h[k].m.sm_user == u)
                            {
                                h[k].o->setSpatialMap(user_sm[u].get());
                                if (h[k].m.valid) this->check_dimension(h[k], "after re-registering a user map whose dimensions changed");
                                ctx.count("probe.same_map_pointer_reinstalled");
                            }
                        ctx.count("fault.reconfig");
                    }
                    ctx.count("fault.user_map_mutated");
                    ctx.mark_nontrivial();
                }
                break;
            }
            case OP_CHECKGRAD: do_checkgrad(o); break;
            case OP_VALIDITY:
            {
                int k = pick(o.I(0), false);
                if (k < 0) break;
                check_validity(k, "query", false);
                break;
            }
            case OP_WS_COPY:
            {
                int a = (int)(((o.I(0) % W::kWS) + W::kWS) % W::kWS), b = (int)(((o.I(1) % W::kWS) + W::kWS) % W::kWS);
                if (a == b || !ws[a]) break;
                if ((o.I(2) & 6) == 2)
                {
                    // the workspace is moved from; the moved-from object (valid but unspecified) stays in the pool and is reused
                    ws[b].reset(new WS(std::move(*ws[a])));
                    this->ws_last_user[b] = this->ws_last_user[a];
                    this->ws_last_N[b] = this->ws_last_N[a];
                    ctx.count("probe.workspace_moved_from_then_reused");
                    break;
                }
                if (ws[b] && (o.I(2) & 1)) *ws[b] = *ws[a];
                else ws[b].reset(new WS(*ws[a]));
                this->ws_last_user[b] = this->ws_last_user[a];
                this->ws_last_N[b] = this->ws_last_N[a];
                ctx.count("probe.workspace_copied");
                break;
            }
            }
        }
        // final sweep: every live valid handle still evaluates like a fresh optimizer built from its configuration
        for (int k = 0; k < W::kHandles; ++k)
        {
            if (!h[k].o) continue;
            if (h[k].m.configured) check_validity(k, "final", false);
            if (!h[k].m.valid || !evaluable(h[k].m)) continue;
            this->check_dimension(h[k], "final");
            Eigen::VectorXd x = this->gen_x(h[k].m, 977 + k, 0);
            CC cc;
            cc.prog = &prog;
            cc.nseg = h[k].m.prob.N();
            WS w;
            EvalResult got = W::call_eval(*h[k].o, x, cc, &w, SplineTrajectory::SerialExecutor(), true);
            this->check_vs_twin(h[k].m, x, true, got, "final evaluate");
        }
        check_exposed_untouched("final", -1);
    }
};

template <class Spline, class TM, class SM>
inline void exec_plan(const Plan &plan, RunCtx &ctx)
{
    Interp<Spline, TM, SM> w(ctx);
    w.run(plan);
}

} // namespace optw
