// Generated spline problems (the "latest inputs" of the models) and the
// well-scaled input domain of DESIGN.md s4.
#pragma once
#include "common.hpp"

namespace prob
{
using namespace simx;

template <int DIM>
struct Problem
{
    using Mat = Eigen::Matrix<double, Eigen::Dynamic, DIM, (DIM == 1) ? Eigen::ColMajor : Eigen::RowMajor>;
    using Vec = Eigen::Matrix<double, DIM, 1>;
    std::vector<double> T; // durations
    std::vector<double> tp; // absolute time points (tp[0] = start time)
    Mat P;                  // N+1 waypoints
    SplineTrajectory::BoundaryConditions<DIM> bc;
    double t0 = 0.0;
    bool by_points = false; // which overload carries the time information
    bool default_bc = false; // all boundary derivatives zero: the boundary argument is omitted (default argument)
    int N() const { return (int)T.size(); }
};

// domain: 0 = well-scaled (s4), 1 = wide (bitwise oracles only), 2 = optimizer (>= 0.05 s)
inline std::vector<double> gen_durations(Rng &r, int N, int order, int domain)
{
    double maxratio = order == 3 ? 1000.0 : (order == 5 ? 20.0 : 4.0);
    if (domain == 1) maxratio = 1e4;
    double ratio = r.chance(0.3) ? 1.0 + r.unit() : r.logreal(1.0, maxratio);
    double lo_scale = domain == 2 ? 0.05 : 0.1;
    double hi_scale = 10.0;
    if (domain == 1) { lo_scale = 2e-3; hi_scale = 50.0; }
    if (ratio > hi_scale / lo_scale) ratio = hi_scale / lo_scale;
    double lo = r.logreal(lo_scale, hi_scale / ratio);
    std::vector<double> T(N);
    int pattern = (int)r.below(4);
    int special = (int)r.below((uint64_t)N);
    for (int i = 0; i < N; ++i)
    {
        switch (pattern)
        {
        case 0: T[i] = lo * r.logreal(1.0, ratio); break;             // log-uniform mix
        case 1: T[i] = (i == special) ? lo : lo * ratio * r.real(0.7, 1.0); break; // one short among long
        case 2: T[i] = (i == special) ? lo * ratio : lo * r.real(1.0, 1.3); break; // one long among short
        default: T[i] = lo * r.real(1.0, std::min(ratio, 2.0)); break; // nearly uniform
        }
        if (T[i] < lo) T[i] = lo;
        if (T[i] > lo * ratio) T[i] = lo * ratio;
    }
    return T;
}

template <int DIM>
inline Problem<DIM> gen_problem(uint64_t seed, int N, int order, int domain, bool by_points)
{
    Rng r(seed, 0x9b0b);
    Problem<DIM> p;
    N = std::max(1, N);
    p.T = gen_durations(r, N, order, domain);
    if (r.chance(0.04))
    {
        // a duration at or next to 1 s (the switch point of the bundled time map) - as long as the vector stays
        // inside the duration-ratio limit of its domain
        static const double near1[] = {1.0, 0.99999, 1.00001, 0.999999999, 1.000000001, 0.99995};
        size_t at = (size_t)r.below((uint64_t)N);
        double v = near1[(size_t)r.below(6)], old = p.T[at];
        p.T[at] = v;
        double mn = p.T[0], mx = p.T[0];
        for (double t : p.T) { mn = std::min(mn, t); mx = std::max(mx, t); }
        double limit = domain == 1 ? 1e4 : (order == 3 ? 1000.0 : (order == 5 ? 20.0 : 4.0));
        if (mx / mn > limit) p.T[at] = old;
    }
    {
        double u = r.unit();
        if (u < 0.05)
        {
            // nearly (not exactly) equally spaced
            double base = p.T[0];
            for (int i = 0; i < N; ++i) p.T[i] = base * (1.0 + 5e-10 * (double)r.range(-1, 1));
        }
        else if (u < 0.12)
        {
            // "human" grids: durations and start with two decimals (their binary sums round in interesting ways)
            for (int i = 0; i < N; ++i) p.T[i] = std::max(0.1, std::round(p.T[i] * 100.0) / 100.0);
        }
    }
    {
        double u = r.unit();
        double span = 0.0;
        for (double t : p.T) span += t;
        // zero, a negative start with t = 0 inside the trajectory, or anywhere
        p.t0 = u < 0.25 ? 0.0 : (u < 0.4 ? -span * r.unit() : r.real(-1000.0, 1000.0));
        if (r.chance(0.15)) p.t0 = std::round(p.t0 * 100.0) / 100.0;
    }
    p.by_points = by_points;
    p.tp.resize(N + 1);
    p.tp[0] = p.t0;
    for (int i = 0; i < N; ++i) p.tp[i + 1] = p.tp[i] + p.T[i];
    if (by_points)
        for (int i = 0; i < N; ++i) p.T[i] = p.tp[i + 1] - p.tp[i]; // exactly what the library will compute
    p.P.resize(N + 1, DIM);
    for (int i = 0; i <= N; ++i)
        for (int d = 0; d < DIM; ++d) p.P(i, d) = r.real(-10.0, 10.0);
    if (r.chance(0.12))
    {
        // exact zeros in the first coordinate of some waypoints (a cost that is linear in it vanishes there exactly)
        for (int i = 0; i <= N; ++i)
            if (r.chance(0.5)) p.P(i, 0) = 0.0;
    }
    double minT = p.T[0];
    for (double t : p.T) minT = std::min(minT, t);
    // boundary derivatives <= 2 in the units implied by the durations
    auto bvec = [&](int k) {
        typename Problem<DIM>::Vec v;
        // (no std::pow: compilers rewrite pow(x, -1), pow(x, -2) ... differently, and generated data must be
        // bit-identical in every build variant)
        double unit = 1.0;
        for (int q = 0; q < k; ++q) unit /= std::max(minT, 0.05);
        for (int d = 0; d < DIM; ++d) v(d) = r.chance(0.2) ? 0.0 : r.real(-2.0, 2.0) * std::min(unit, 1e4) * 0.5;
        return v;
    };
    p.default_bc = r.chance(0.1);
    if (!p.default_bc)
    {
    p.bc.start_velocity = bvec(1);
    p.bc.end_velocity = bvec(1);
    p.bc.start_acceleration = bvec(2);
    p.bc.end_acceleration = bvec(2);
    p.bc.start_jerk = bvec(3);
    p.bc.end_jerk = bvec(3);
    }
    return p;
}

template <class Spline, int DIM>
inline void apply_update(Spline &s, const Problem<DIM> &p)
{
    if (p.default_bc)
    {
        // the boundary argument is left to its default (zero boundary derivatives)
        if (p.by_points) s.update(p.tp, p.P);
        else s.update(p.T, p.P, p.t0);
        return;
    }
    if (p.by_points) s.update(p.tp, p.P, p.bc);
    else s.update(p.T, p.P, p.t0, p.bc);
}

template <class Spline, int DIM>
inline std::unique_ptr<Spline> make_spline(const Problem<DIM> &p)
{
    // (the twin always passes the boundary state explicitly: for default_bc problems it is the zero state)
    if (p.by_points) return std::unique_ptr<Spline>(new Spline(p.tp, p.P, p.bc));
    return std::unique_ptr<Spline>(new Spline(p.T, p.P, p.t0, p.bc));
}

} // namespace prob
