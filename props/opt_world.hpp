// Optimizer world, part 1: pools, twins, reference computations and oracles.
#pragma once
#include "opt_model.hpp"
#include "poly.hpp"
#include <new>

namespace optw
{

template <class TM> struct TMTraits
{
    static constexpr bool sim = false;
    static TM make(int, double) { return TM(); }
};
template <> struct TMTraits<env::SimTimeMap>
{
    static constexpr bool sim = true;
    static env::SimTimeMap make(int kind, double a) { return env::SimTimeMap(kind, a); }
};
template <class SM> struct SMTraits
{
    static constexpr bool sim = false;
    static SM make(int, double) { return SM(); }
    static bool roundtrip_exact(const SM &, int) { return true; }
    template <class V> static V project(const SM &, const V &p, int) { return p; }
};
template <int D> struct SMTraits<env::SimSpatialMap<D>>
{
    static constexpr bool sim = true;
    static env::SimSpatialMap<D> make(int kind, double s) { return env::SimSpatialMap<D>(kind, s); }
    static bool roundtrip_exact(const env::SimSpatialMap<D> &m, int i) { return m.roundtrip_exact(i); }
    template <class V> static V project(const env::SimSpatialMap<D> &m, const V &p, int i) { return m.project(p, i); }
};

struct EvalResult
{
    double cost = 0.0;
    Eigen::VectorXd grad;
};

template <class Spline, class TM, class SM>
struct World
{
    static constexpr int DIM = Spline::VectorType::RowsAtCompileTime;
    static constexpr int ORDER = Spline::ORDER;
    using Opt = SplineTrajectory::SplineOptimizer<DIM, Spline, TM, SM>;
    using WS = typename Opt::Workspace;
    using Mat = typename Spline::MatrixType;
    using Vec = typename Spline::VectorType;
    using Model = OptModel<DIM>;
    using Prog = env::CostProgram<DIM>;
    using CC = env::CallCtx<DIM>;
    using Trace = env::Trace<DIM>;
    static constexpr bool kSimMaps = TMTraits<TM>::sim;

    static const int kHandles = 3, kWS = 3, kUserMaps = 2;

    struct Handle
    {
        Opt *o = nullptr;
        Model m;
    };

    RunCtx &ctx;
    Handle h[kHandles];
    std::unique_ptr<WS> ws[kWS];
    int ws_last_user[kWS];   // handle index that used the workspace last (-1 none)
    int ws_last_N[kWS];
    std::vector<std::unique_ptr<TM>> user_tm;
    std::vector<std::unique_ptr<SM>> user_sm;
    std::vector<void *> graveyard; // destroyed optimizers' memory (plain build: never reused within the run)
    Prog prog;
    double worst_fd = 0.0;

    explicit World(RunCtx &c) : ctx(c)
    {
        for (int k = 0; k < kWS; ++k) { ws_last_user[k] = -1; ws_last_N[k] = -1; }
    }
    ~World()
    {
        for (auto &H : h)
            if (H.o) free_opt(H.o, true);
        for (void *p : graveyard) ::operator delete(p, std::align_val_t(alignof(Opt)));
    }

    // ------------------------------------------------------------ pools ----
    Opt *alloc_opt_raw()
    {
#ifdef STSIM_ASAN
        return nullptr;
#else
        return static_cast<Opt *>(::operator new(sizeof(Opt), std::align_val_t(alignof(Opt))));
#endif
    }
    template <class... A> Opt *new_opt(A &&...a)
    {
#ifdef STSIM_ASAN
        return new Opt(std::forward<A>(a)...);
#else
        return new (alloc_opt_raw()) Opt(std::forward<A>(a)...);
#endif
    }
    void free_opt(Opt *p, bool final_cleanup = false)
    {
#ifdef STSIM_ASAN
        (void)final_cleanup;
        delete p; // the sanitizer sees any later use
#else
        p->~Opt();
        // poison everything except what the destructors deliberately left behind is not possible without
        // knowing the layout, so the block is simply kept out of circulation: canaries stay "dead"
        graveyard.push_back(p);
        (void)final_cleanup;
#endif
    }

    void set_default_map_hooks(const Model &m)
    {
        env::Hooks &hk = env::hooks();
        hk.next_time_kind = m.tm_kind; hk.next_time_param = m.tm_param;
        hk.next_spatial_kind = m.sm_kind; hk.next_spatial_param = m.sm_param;
    }
    TM tm_of(const Model &m) const { return m.tm_user >= 0 ? TM(*user_tm[m.tm_user]) : TMTraits<TM>::make(m.tm_kind, m.tm_param); }
    SM sm_of(const Model &m) const { return m.sm_user >= 0 ? SM(*user_sm[m.sm_user]) : SMTraits<SM>::make(m.sm_kind, m.sm_param); }

    static bool set_init(Opt &o, const Problem<DIM> &p)
    {
        return p.by_points ? o.setInitState(p.tp, p.P, p.bc) : o.setInitState(p.T, p.P, p.t0, p.bc);
    }

    // a fresh optimizer that was given only the latest configuration
    std::unique_ptr<Opt> make_twin(const Model &m)
    {
        set_default_map_hooks(m);
        std::unique_ptr<Opt> t(new Opt());
        if (m.tm_user >= 0) t->setTimeMap(user_tm[m.tm_user].get());
        if (m.sm_user >= 0) t->setSpatialMap(user_sm[m.sm_user].get());
        if (m.configured) set_init(*t, m.prob);
        if (m.rejected_early) t->setInitState(std::vector<double>(), m.prob.P, m.prob.bc);
        t->setOptimizationFlags(make_flags(m.mask));
        t->setEnergyWeights(m.rho);
        t->setIntegralNumSteps(m.K);
        return t;
    }

    Layout layout_of(const Model &m)
    {
        SM sm = sm_of(m);
        return layout_model(m.valid ? m.prob.N() : (m.configured ? m.prob.N() : 0), m.mask, ORDER, DIM,
                            [&](int i) { return sm.getUnconstrainedDim(i); });
    }

    // ----------------------------------------------------- decision vector --
    // mode 0: initial guess perturbed inside the domain; mode 1: sentinel (every coordinate distinct)
    Eigen::VectorXd gen_x(const Model &m, uint64_t seed, int mode)
    {
        Rng r(seed, 0x7e);
        Layout L = layout_of(m);
        TM tm = tm_of(m);
        SM sm = sm_of(m);
        Eigen::VectorXd x(L.total);
        const Problem<DIM> &p = m.prob;
        for (int i = 0; i < L.N; ++i)
        {
            double T = mode == 1 ? (0.5 + 0.0371 * (i + 1) + 0.2 * r.unit()) : p.T[i] * std::exp(mode == 4 ? 0.0 * r.unit() : r.real(-0.2, 0.2));
            double tau = tm.toTau(T);
            // keep clear of the switch point of the bundled time map (finite differences need smoothness)
            if (!kSimMaps && std::fabs(tau) < 0.02) tau = tau < 0 ? -0.02 : 0.02;
            x(i) = tau;
        }
        for (auto &pt : L.pts)
        {
            Eigen::VectorXd xi = sm.toUnconstrained(Eigen::VectorXd(p.P.row(pt.index).transpose()), pt.index);
            for (int d = 0; d < pt.dof; ++d)
                x(pt.offset + d) = mode == 1 ? (1.0 + 0.013 * (pt.offset + d) + 0.001 * r.unit()) : xi(d) + (mode == 4 ? 0.0 * r.unit() : r.real(-0.3, 0.3));
        }
        int off = L.deriv_offset;
        for (int f : L.deriv_fields)
        {
            const Vec &v = bc_field<DIM>(p.bc, f);
            for (int d = 0; d < DIM; ++d) x(off + d) = mode == 1 ? (-2.0 - 0.017 * (off + d) - 0.001 * r.unit()) : v(d) + (mode == 4 ? 0.0 * r.unit() : r.real(-0.3, 0.3));
            off += DIM;
        }
        if (mode == 2 && !kSimMaps && ORDER == 3 && std::is_same<TM, SplineTrajectory::QuadInvTimeMap>::value)
        {
            // an extreme but legal decision value: one time variable far on the negative branch of the bundled map
            // (duration around or below a millisecond; the cubic solver is diagonally dominant and copes with the ratio)
            int j = (int)r.below((uint64_t)L.N);
            x(j) = -44.0 - 16.0 * r.unit();
            if (RunCtx *c = cur_ctx()) c->count("probe.extreme_time_variable");
        }
        if (mode == 6 && std::is_same<TM, SplineTrajectory::IdentityTimeMap>::value)
        {
            // dyadic durations from a fixed multiset, permuted by the seed: different interior knots, the same
            // start and - bit for bit - the same end time
            std::vector<double> ds((size_t)L.N);
            for (int i = 0; i < L.N; ++i) ds[(size_t)i] = 0.25 * (double)(2 + (i % 4));
            for (int i = L.N - 1; i > 0; --i) std::swap(ds[(size_t)i], ds[(size_t)r.below((uint64_t)i + 1)]);
            for (int i = 0; i < L.N; ++i) x(i) = ds[(size_t)i];
            if (RunCtx *c = cur_ctx()) c->count("probe.same_total_other_knots");
        }
        if (mode == 5)
        {
            // one segment far below the millisecond the validity rule asks of the *reference* (decision values are free)
            int j = (int)r.below((uint64_t)L.N);
            x(j) = tm.toTau(r.real(2e-4, 9e-4));
            if (RunCtx *c = cur_ctx()) c->count("probe.sub_millisecond_duration");
        }
        if (mode == 3)
        {
            // zero and tiny non-zero values in spatial / boundary-derivative coordinates
            static const double tiny[] = {0.0, 1e-12, -3e-10, 5.5511151231257827e-17, -0.0};
            int cnt = 1 + (int)r.below(3);
            for (int q = 0; q < cnt && L.total > L.N; ++q)
                x(L.N + (int)r.below((uint64_t)(L.total - L.N))) = tiny[(size_t)r.below(5)];
            if (RunCtx *c = cur_ctx()) c->count("probe.tiny_decision_coordinates");
        }
        return x;
    }

    // what the library must decode from x (C09): durations, waypoints, boundary states
    Problem<DIM> decode_model(const Model &m, const Eigen::VectorXd &x)
    {
        Layout L = layout_of(m);
        TM tm = tm_of(m);
        SM sm = sm_of(m);
        Problem<DIM> q = m.prob;
        q.by_points = false;
        for (int i = 0; i < L.N; ++i) q.T[i] = tm.toTime(x(i));
        for (auto &pt : L.pts) q.P.row(pt.index) = sm.toPhysical(Eigen::VectorXd(x.segment(pt.offset, pt.dof)), pt.index).transpose();
        int off = L.deriv_offset;
        for (int f : L.deriv_fields)
        {
            bc_field<DIM>(q.bc, f) = x.template segment<DIM>(off);
            off += DIM;
        }
        return q;
    }

    // ------------------------------------------------------------- calls ----
    template <class Exec>
    static EvalResult call_eval(const Opt &o, const Eigen::VectorXd &x, CC &cc, WS *w, const Exec &ex, bool three)
    {
        env::SimTimeCost<DIM> tc{&cc};
        env::SimWaypointCost<DIM> wc{&cc};
        env::SimRunningCost<DIM> rc{&cc};
        EvalResult r;
        r.grad = Eigen::VectorXd::Constant(x.size(), 777.0); // must be overwritten
        if (three) r.cost = o.evaluate(x, r.grad, tc, wc, rc, w, ex);
        else r.cost = o.evaluate(x, r.grad, tc, rc, w, ex);
        return r;
    }

    // the same call made alone: fresh optimizer, fresh workspace, the library's serial executor
    EvalResult twin_eval(const Model &m, const Eigen::VectorXd &x, bool three, const env::GradFault *fault = nullptr)
    {
        std::unique_ptr<Opt> t = make_twin(m);
        WS w;
        CC cc;
        cc.prog = &prog;
        cc.nseg = m.prob.N();
        if (fault) cc.fault = *fault;
        return call_eval(*t, x, cc, &w, SplineTrajectory::SerialExecutor(), three);
    }

    void check_vs_twin(const Model &m, const Eigen::VectorXd &x, bool three, const EvalResult &got, const char *what)
    {
        EvalResult want = twin_eval(m, x, three);
        SIM_CHECK(same_bits(got.cost, want.cost), "cost_vs_serial_twin",
                  what << ": cost " << fmt_double(got.cost) << " (" << got.cost << ") but the same call made alone on a fresh optimizer/workspace returns "
                       << fmt_double(want.cost) << " (" << want.cost << "); N=" << m.prob.N() << " dim(x)=" << x.size());
        SIM_CHECK(got.grad.size() == want.grad.size(), "grad_size", what << ": gradient has " << got.grad.size() << " entries, expected " << want.grad.size());
        for (Eigen::Index k = 0; k < got.grad.size(); ++k)
            SIM_CHECK(same_bits(got.grad(k), want.grad(k)), "grad_vs_serial_twin",
                      what << ": gradient entry " << k << " of " << got.grad.size() << " is " << got.grad(k) << " but the same call made alone gives " << want.grad(k)
                           << "; N=" << m.prob.N());
        ctx.val(got.cost);
        log_matrix(ctx, got.grad);
        ctx.count("oracle.serial_twin");
    }

    // ------------------------------------------------------- C08: trace ----
    void check_trace(const Model &m, const Eigen::VectorXd &x, bool three, const Trace &tr, const Spline &spl, double cost)
    {
        const int N = m.prob.N();
        const int K = m.K;
        Problem<DIM> q = decode_model(m, x);
        // time cost: exactly once, with exactly the decoded durations
        SIM_CHECK(tr.time_args.size() == 1, "time_cost_calls", "time cost called " << tr.time_args.size() << " times in one evaluation");
        SIM_CHECK(bitwise_equal_vec(tr.time_args[0], q.T), "time_cost_argument", "time cost did not receive toTime(x_i) for every segment");
        if (three)
        {
            SIM_CHECK(tr.wp_args.size() == 1, "waypoint_cost_calls", "waypoint cost called " << tr.wp_args.size() << " times in one evaluation");
            SIM_CHECK(bitwise_equal(tr.wp_args[0], q.P), "waypoint_cost_argument", "waypoint cost did not receive the decoded waypoints");
        }
        else
            SIM_CHECK(tr.wp_args.empty(), "waypoint_cost_calls", "two-cost overload called a waypoint cost");
        SIM_CHECK(tr.other_seg.empty(), "sample_segment_index", "running cost received segment index " << (tr.other_seg.empty() ? 0 : tr.other_seg[0]) << " outside [0," << N << ")");
        // the published trajectory is the one defined by x
        std::unique_ptr<Spline> fresh = prob::make_spline<Spline, DIM>(q);
        const auto &C = spl.getTrajectory().getCoefficients();
        SIM_CHECK(bitwise_equal(C, fresh->getTrajectory().getCoefficients()), "workspace_spline",
                  "the workspace spline after evaluate is not the spline of the decoded durations/waypoints/boundary states");
        SIM_CHECK(bitwise_equal_vec(spl.getTrajectory().getBreakpoints(), fresh->getCumulativeTimes()) && same_bits(spl.getStartTime(), fresh->getStartTime()),
                  "workspace_spline_times", "the workspace spline after evaluate has other knot times than the spline of the decoded durations and the configured start time");
        long double total = (long double)tr.time_cost, mag = fabsl((long double)tr.time_cost);
        long double tstart = (long double)q.t0;
        long double tsum_abs = fabsl((long double)q.t0);
        for (double t : q.T) tsum_abs += t;
        for (int i = 0; i < N; ++i)
        {
            const auto &S = tr.per_seg[i];
            SIM_CHECK((int)S.size() == K + 1, "sample_count", "segment " << i << " delivered " << S.size() << " samples, expected K+1=" << K + 1);
            const double T = q.T[i];
            std::vector<double> bseg = {0.0, INFINITY};
            Mat cb = C.block(i * Spline::COEFF_NUM, 0, Spline::COEFF_NUM, DIM);
            for (int k = 0; k <= K; ++k)
            {
                const auto &s = S[k];
                SIM_CHECK(s.seg == i, "sample_segment_index", "sample filed under segment " << i << " carries index " << s.seg);
                long double tl = (long double)k * (long double)T / (long double)K;
                SIM_CHECK(fabsl((long double)s.t - tl) <= 4.0L * DBL_EPSILON * (long double)T, "sample_local_time",
                          "segment " << i << " sample " << k << ": local time " << s.t << " expected k*T/K=" << (double)tl);
                long double tg = tstart + tl;
                SIM_CHECK(fabsl((long double)s.tg - tg) <= 8.0L * DBL_EPSILON * tsum_abs, "sample_global_time",
                          "segment " << i << " sample " << k << ": global time " << s.tg << " expected start+elapsed+t=" << (double)tg);
                const Vec *got[5] = {&s.p, &s.v, &s.a, &s.j, &s.s};
                static const char *nm[5] = {"position", "velocity", "acceleration", "jerk", "snap"};
                for (int der = 0; der < 5; ++der)
                {
                    int piece;
                    std::vector<long double> val, mg;
                    polyw::ref_eval(bseg, cb, Spline::COEFF_NUM, s.t, der, piece, val, mg);
                    for (int d = 0; d < DIM; ++d)
                        SIM_CHECK(fabsl((long double)(*got[der])(d) - val[d]) <= 1e-12L * mg[d] + 1e-300L, "sample_state",
                                  "segment " << i << " sample " << k << " " << nm[der] << "[" << d << "] = " << (*got[der])(d) << " but the published trajectory has "
                                             << (double)val[d]);
                }
                if (k == 0 || k == K || k == K / 2)
                {
                    // second reference: the library's own per-segment evaluation (different arithmetic route)
                    Vec pv = spl.getTrajectory()[i].evaluate(s.t, 1);
                    int piece;
                    std::vector<long double> val, mg;
                    polyw::ref_eval(bseg, cb, Spline::COEFF_NUM, s.t, 1, piece, val, mg);
                    for (int d = 0; d < DIM; ++d)
                        SIM_CHECK(fabsl((long double)pv(d) - (long double)s.v(d)) <= 2e-12L * mg[d] + 1e-300L, "sample_state",
                                  "segment " << i << " sample " << k << ": velocity differs from getTrajectory()[i].evaluate");
                }
                long double w = (k == 0 || k == K) ? 0.5L : 1.0L;
                long double term = w * ((long double)T / (long double)K) * (long double)s.c;
                total += term;
                mag += fabsl(term);
            }
            tstart += (long double)T;
        }
        if (three) { total += (long double)tr.wp_cost; mag += fabsl((long double)tr.wp_cost); }
        if (m.rho > 0)
        {
            long double e = (long double)m.rho * (long double)fresh->getEnergy();
            total += e;
            mag += fabsl(e);
        }
        SIM_CHECK(fabsl((long double)cost - total) <= 1e-12L * mag + 1e-300L, "cost_decomposition",
                  "returned cost " << cost << " but time + waypoint + trapezoid integral + rho*energy = " << (double)total << " (terms magnitude " << (double)mag << ")");
        ctx.count("oracle.trace");
        {
            NoRace g;
            Digest d;
            for (int v : tr.arrival) d.i64(v);
            ctx.state.u64(d.h);
        }
    }

    // --------------------------------------------- C07: finite differences --
    // `loose`: decision vectors with an extreme (sub-millisecond) duration are badly conditioned; the comparison is then
    // only asked to see errors of the order of the gradient itself (100 times the usual tolerance)
    void check_fd(const Model &m, const Eigen::VectorXd &x, bool three, const EvalResult &got, bool loose = false)
    {
        std::unique_ptr<Opt> t = make_twin(m);
        WS w;
        CC cc;
        cc.prog = &prog;
        cc.nseg = m.prob.N();
        TM tm = tm_of(m);
        auto cost_at = [&](const Eigen::VectorXd &y) -> long double {
            return (long double)call_eval(*t, y, cc, &w, SplineTrajectory::SerialExecutor(), three).cost;
        };
        const int n = (int)x.size();
        const int N = m.prob.N();
        std::vector<long double> fd(n), step(n);
        long double gmax = 0.0L;
        Eigen::VectorXd y = x;
        for (int k = 0; k < n; ++k)
        {
            double hstep;
            if (k < N)
            {
                double T = tm.toTime(x(k));
                double slope = std::fabs(tm.backward(x(k), T, 1.0));
                hstep = 1e-3 * T / std::max(slope, 1e-12);
                if (!kSimMaps && std::fabs(x(k)) < 2.5 * hstep) hstep = std::fabs(x(k)) / 2.5;
            }
            else
                hstep = 1e-3;
            auto D = [&](double hh) {
                y(k) = x(k) + hh; long double cp = cost_at(y);
                y(k) = x(k) - hh; long double cm = cost_at(y);
                y(k) = x(k);
                double up = (x(k) + hh) - x(k), dn = x(k) - (x(k) - hh);
                return (cp - cm) / ((long double)up + (long double)dn);
            };
            long double d1 = D(hstep), d2 = D(hstep / 2);
            fd[k] = (4.0L * d2 - d1) / 3.0L;
            step[k] = hstep;
            gmax = std::max(gmax, fabsl(fd[k]));
        }
        long double cabs = fabsl((long double)got.cost) + 1e-300L;
        double worst = 0.0;
        int worst_k = -1;
        for (int k = 0; k < n; ++k)
        {
            long double err = fabsl((long double)got.grad(k) - fd[k]);
            long double tol = (loose ? 2e-3L : 2e-5L) * (fabsl(fd[k]) + 0.1L * gmax) + 4e3L * (long double)DBL_EPSILON * cabs / step[k];
            double ratio = (double)(err / tol);
            if (ratio > worst) { worst = ratio; worst_k = k; }
            if (err > tol)
            {
                // Before calling this a violation, make sure the reference itself has converged: repeat the Richardson
                // quotient with a 4 and a 16 times smaller step.  A reference that keeps moving (a cost with very large
                // higher derivatives at this point) decides nothing; a converged one is compared again.
                auto R = [&](double hh) {
                    auto D = [&](double q) {
                        y(k) = x(k) + q; long double cp = cost_at(y);
                        y(k) = x(k) - q; long double cm = cost_at(y);
                        y(k) = x(k);
                        double up = (x(k) + q) - x(k), dn = x(k) - (x(k) - q);
                        return (cp - cm) / ((long double)up + (long double)dn);
                    };
                    return (4.0L * D(hh / 2) - D(hh)) / 3.0L;
                };
                long double r4 = R((double)step[k] / 4), r16 = R((double)step[k] / 16);
                long double tol16 = (loose ? 2e-3L : 2e-5L) * (fabsl(r16) + 0.1L * gmax) + 4e3L * (long double)DBL_EPSILON * cabs / (step[k] / 16);
                if (fabsl(r16 - r4) > 0.25L * tol16)
                {
                    ctx.count("probe.fd_reference_not_converged");
                    continue; // inconclusive at this coordinate
                }
                if (fabsl((long double)got.grad(k) - r16) <= tol16)
                {
                    ctx.count("probe.fd_reference_refined");
                    continue;
                }
                fd[k] = r16;
                tol = tol16;
                err = fabsl((long double)got.grad(k) - r16);
                ratio = (double)(err / tol);
            }
            if (err > tol && std::getenv("STSIM_DEBUG_MARGIN"))
                for (double f : {4.0, 1.0, 0.25, 1.0 / 16, 1.0 / 256, 1.0 / 4096})
                {
                    double hh = (double)step[k] * f;
                    y(k) = x(k) + hh; long double cp = cost_at(y);
                    y(k) = x(k) - hh; long double cm = cost_at(y);
                    y(k) = x(k);
                    fprintf(stderr, "  FDDBG k=%d x=%.6g h=%.3g D=%.10g cp=%.12Lg cm=%.12Lg analytic=%.10g\n", k, x(k), hh, (double)((cp - cm) / (2 * hh)), cp, cm, got.grad(k));
                }
            SIM_CHECK(err <= tol, "gradient_vs_finite_difference",
                      "gradient entry " << k << " of " << n << " (N=" << N << ", flags " << m.mask << ", rho " << m.rho << ", K " << m.K << "): analytic " << got.grad(k)
                                        << " but Richardson central differences of the returned cost give " << (double)fd[k] << " |err|/tol " << ratio);
        }
        if (worst > 1.0 && std::getenv("STSIM_DEBUG_MARGIN"))
        {
            int k = worst_k;
            for (double f : {4.0, 1.0, 0.25, 1.0 / 16, 1.0 / 256})
            {
                double hh = (double)step[k] * f;
                y(k) = x(k) + hh; long double cp = cost_at(y);
                y(k) = x(k) - hh; long double cm = cost_at(y);
                y(k) = x(k);
                fprintf(stderr, "  FDDBG k=%d x=%.6g h=%.3g D=%.10g cp=%.12Lg cm=%.12Lg\n", k, x(k), hh, (double)((cp - cm) / (2 * hh)), cp, cm);
            }
        }
        if (worst > 1e-2 && std::getenv("STSIM_DEBUG_MARGIN"))
            fprintf(stderr, "MARGIN fd worst=%.3g k=%d n=%d N=%d order=%d dim=%d mask=%d rho=%g K=%d g=%.8g fd=%.8g gmax=%.3g cost=%.3g step=%.3g uses=%u\n", worst, worst_k, n, N,
                    ORDER, DIM, m.mask, m.rho, m.K, got.grad(worst_k), (double)fd[worst_k], (double)gmax, got.cost, (double)step[worst_k], prog.uses);
        ctx.count("oracle.fd_gradient");
        ctx.count(worst < 1e-3 ? "margin.fd.err_over_tol_lt_1e-3" : worst < 1e-2 ? "margin.fd.err_over_tol_lt_1e-2" : worst < 1e-1 ? "margin.fd.err_over_tol_lt_1e-1" : "margin.fd.err_over_tol_lt_1");
    }

    // --------------------------------------------- C09: layout and pinning --
    void check_dimension(Handle &H, const char *when)
    {
        Layout L = layout_of(H.m);
        int got = H.o->getDimension();
        SIM_CHECK(got == L.total, "dimension",
                  when << ": getDimension()=" << got << " but the layout model gives " << L.total << " (N=" << L.N << ", flags " << H.m.mask << ", " << L.pts.size()
                       << " optimised points, " << L.deriv_fields.size() << " derivative blocks)");
        ctx.ival(got);
    }

    void check_initial_guess(Handle &H)
    {
        const Model &m = H.m;
        Layout L = layout_of(m);
        TM tm = tm_of(m);
        SM sm = sm_of(m);
        Eigen::VectorXd x = H.o->generateInitialGuess();
        SIM_CHECK(x.size() == L.total, "guess_size", "generateInitialGuess() has " << x.size() << " entries, layout model " << L.total);
        for (int i = 0; i < L.N; ++i)
            SIM_CHECK(same_bits(x(i), tm.toTau(m.prob.T[i])), "guess_time_slot", "guess slot " << i << " = " << x(i) << " is not toTau(T_" << i << ")=" << tm.toTau(m.prob.T[i]));
        for (auto &pt : L.pts)
        {
            Eigen::VectorXd xi = sm.toUnconstrained(Eigen::VectorXd(m.prob.P.row(pt.index).transpose()), pt.index);
            SIM_CHECK(xi.size() == pt.dof, "harness", "map dof mismatch");
            for (int d = 0; d < pt.dof; ++d)
                SIM_CHECK(same_bits(x(pt.offset + d), xi(d)), "guess_point_slot",
                          "guess slot " << pt.offset + d << " is " << x(pt.offset + d) << ", expected component " << d << " of toUnconstrained(P_" << pt.index << ") = " << xi(d));
        }
        int off = L.deriv_offset;
        for (int f : L.deriv_fields)
        {
            const Vec &v = bc_field<DIM>(m.prob.bc, f);
            for (int d = 0; d < DIM; ++d)
                SIM_CHECK(same_bits(x(off + d), v(d)), "guess_derivative_slot", "guess slot " << off + d << " is " << x(off + d) << ", expected boundary field " << f << "[" << d << "]=" << v(d));
            off += DIM;
        }
        // decoding the guess gives the reference problem back
        Problem<DIM> q = decode_model(m, x);
        for (int i = 0; i < L.N; ++i)
            SIM_CHECK(std::fabs(q.T[i] - m.prob.T[i]) <= 1e-12 * m.prob.T[i], "guess_roundtrip_time", "toTime(toTau(T_" << i << ")) = " << q.T[i] << " vs " << m.prob.T[i]);
        for (auto &pt : L.pts)
        {
            // only points the active map can represent can be recovered (a map onto a sub-manifold cannot
            // reproduce a reference point that lies off it; the statement presupposes representable references)
            Vec ref = m.prob.P.row(pt.index).transpose();
            if (!bitwise_equal(SMTraits<SM>::project(sm, ref, pt.index), ref)) { ctx.count("probe.reference_not_representable_by_map"); continue; }
            for (int d = 0; d < DIM; ++d)
            {
                bool exact = SMTraits<SM>::roundtrip_exact(sm, pt.index);
                double a = q.P(pt.index, d), b = m.prob.P(pt.index, d);
                SIM_CHECK(exact ? same_bits(a, b) : std::fabs(a - b) <= 1e-9 * (1.0 + std::fabs(b)), "guess_roundtrip_point",
                          "decoding the guess gives waypoint " << pt.index << "[" << d << "]=" << a << " instead of the reference " << b);
            }
        }
        log_matrix(ctx, x);
        ctx.count("oracle.initial_guess");
    }

    // the spline exposed after an evaluation with the built-in workspace is the one defined by x,
    // and everything that is not flagged stays pinned to the reference bit for bit
    void check_exposed_spline(Handle &H, const Eigen::VectorXd &x)
    {
        const Model &m = H.m;
        const Spline *sp = H.o->getOptimalSpline();
        SIM_CHECK(sp != nullptr, "exposed_spline", "getOptimalSpline() is null after an evaluation with the built-in workspace");
        Problem<DIM> q = decode_model(m, x);
        Layout L = layout_of(m);
        SIM_CHECK(bitwise_equal_vec(sp->getTimeSegments(), q.T), "exposed_durations", "exposed spline durations are not toTime(x_i)");
        std::vector<bool> opt(L.N + 1, false);
        for (auto &pt : L.pts) opt[pt.index] = true;
        for (int i = 0; i <= L.N; ++i)
            for (int d = 0; d < DIM; ++d)
            {
                double a = sp->getSpacePoints()(i, d);
                if (opt[i]) SIM_CHECK(same_bits(a, q.P(i, d)), "exposed_waypoint", "optimised waypoint " << i << "[" << d << "]=" << a << " is not toPhysical(block)=" << q.P(i, d));
                else SIM_CHECK(same_bits(a, m.prob.P(i, d)), "pinned_waypoint", "unflagged waypoint " << i << "[" << d << "]=" << a << " moved away from its reference " << m.prob.P(i, d));
            }
        std::vector<bool> flagged(6, false);
        for (int f : L.deriv_fields) flagged[f] = true;
        for (int f = 0; f < 6; ++f)
        {
            if (!order_has_field(ORDER, f)) continue;
            const Vec &a = bc_field<DIM>(sp->getBoundaryConditions(), f);
            const Vec &want = flagged[f] ? bc_field<DIM>(q.bc, f) : bc_field<DIM>(m.prob.bc, f);
            SIM_CHECK(bitwise_equal(a, want), flagged[f] ? "exposed_boundary_state" : "pinned_boundary_state",
                      "boundary field " << f << (flagged[f] ? " is not its decision-vector block: " : " moved away from its reference: ") << show(a) << " vs " << show(want));
        }
        SIM_CHECK(same_bits(sp->getStartTime(), m.prob.by_points ? m.prob.tp[0] : m.prob.t0), "exposed_start_time", "exposed spline start time " << sp->getStartTime());
        std::unique_ptr<Spline> fresh = prob::make_spline<Spline, DIM>(q);
        SIM_CHECK(bitwise_equal(sp->getTrajectory().getCoefficients(), fresh->getTrajectory().getCoefficients()), "exposed_spline",
                  "the exposed spline is not the spline defined by the decision vector");
        SIM_CHECK(bitwise_equal_vec(sp->getTrajectory().getBreakpoints(), fresh->getCumulativeTimes()) && bitwise_equal_vec(sp->getCumulativeTimes(), fresh->getCumulativeTimes()),
                  "exposed_spline_times", "the exposed spline's knot times are not start time + decoded durations");
        ctx.count("oracle.exposed_spline");
    }
};

} // namespace optw
