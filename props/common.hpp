// Single entry point through which every unit sees the library under test.
// Library assertions (Eigen index checks) are turned into exceptions so that an
// out-of-range access caused by a broken invariant becomes a recorded violation
// instead of abort().  Must precede any Eigen include, identically in all units.
#pragma once
#include "../sim/driver.hpp"

#ifdef eigen_assert
#undef eigen_assert
#endif
#define eigen_assert(x)                                 \
    do {                                                \
        if (!(x)) throw ::sim::EigenAssert(#x);         \
    } while (0)

#include <Eigen/Dense>
#include "SplineTrajectory.hpp"
#include "SplineOptimizer.hpp"

#include <climits>
#include <cfloat>

namespace simx
{
using namespace sim;

// number of ulps between two doubles of the same sign (large if not comparable)
inline uint64_t ulp_distance(double a, double b)
{
    if (a == b) return 0;
    if (std::isnan(a) || std::isnan(b)) return ~0ULL;
    if ((a < 0) != (b < 0)) return ~0ULL;
    uint64_t x = bits_of(std::fabs(a)), y = bits_of(std::fabs(b));
    return x > y ? x - y : y - x;
}

template <class A, class B>
inline bool bitwise_equal(const A &a, const B &b)
{
    if (a.rows() != b.rows() || a.cols() != b.cols()) return false;
    for (Eigen::Index r = 0; r < a.rows(); ++r)
        for (Eigen::Index c = 0; c < a.cols(); ++c)
            if (!same_bits(a(r, c), b(r, c))) return false;
    return true;
}

template <class A>
inline void log_matrix(RunCtx &ctx, const A &a)
{
    NoRace g;
    for (Eigen::Index r = 0; r < a.rows(); ++r)
        for (Eigen::Index c = 0; c < a.cols(); ++c)
        {
            ctx.log.f64(a(r, c));
            ctx.state.f64(a(r, c));
            if (RunCtx::dump_values()) std::fprintf(stderr, "VAL %a\n", (double)a(r, c));
        }
}

template <class A>
inline std::string show(const A &a)
{
    std::ostringstream os;
    os.precision(17);
    os << "[";
    for (Eigen::Index r = 0; r < a.rows(); ++r)
    {
        if (r) os << "; ";
        for (Eigen::Index c = 0; c < a.cols(); ++c) os << (c ? " " : "") << a(r, c);
    }
    os << "]";
    return os.str();
}

inline bool bitwise_equal_vec(const std::vector<double> &a, const std::vector<double> &b)
{
    if (a.size() != b.size()) return false;
    for (size_t k = 0; k < a.size(); ++k)
        if (!same_bits(a[k], b[k])) return false;
    return true;
}

} // namespace simx
