// Plan generators (swarm configuration + operation mix) for the optimizer world.
#pragma once
#include "opt.hpp"

namespace optw
{

enum Profile { P_C07, P_C08, P_C09, P_C10, P_C12, P_C15, P_C16, P_C19 };

struct Gen
{
    Rng r;
    Plan p;
    Tier tier;
    int profile;
    bool sim_maps;
    int max_N;
    Gen(uint64_t seed, Tier t, int prof, bool sim) : r(seed, 0x600 + prof), tier(t), profile(prof), sim_maps(sim), max_N(6) {}

    int64_t rnd(uint64_t n) { return (int64_t)r.below(n); }
    int64_t pick_N()
    {
        double u = r.unit();
        if (u < 0.5) return r.range(1, 3);
        return r.range(4, max_N);
    }
    void op(int kind, std::vector<int64_t> i, std::vector<double> d = {})
    {
        Op o;
        o.kind = kind;
        o.i = std::move(i);
        o.d = std::move(d);
        p.ops.push_back(std::move(o));
    }
    void set_init(int64_t h, int64_t N, int bad = BAD_NONE, int only_start = 0) { op(OP_SET_INIT, {h, N, rnd(1u << 30), rnd(2), bad, rnd(64), rnd(8), only_start}); }
    double reenter_rate = 0.0;
    void configure(int64_t h, bool maps, int mask = -1)
    {
        int64_t fm = mask >= 0 ? mask : (r.chance(0.15) ? 0 : (r.chance(0.15) ? 255 : rnd(256)));
        bool flags_first = r.chance(0.3), maps_last = r.chance(0.25);
        if (flags_first) op(OP_SET_FLAGS, {h, fm});
        if (!maps_last)
        {
            if (maps && r.chance(0.5)) op(OP_SET_TMAP, {h, rnd(3)});
            if (maps && r.chance(0.6)) op(OP_SET_SMAP, {h, rnd(3)});
        }
        set_init(h, pick_N());
        if (maps_last)
        {
            if (maps && r.chance(0.5)) op(OP_SET_TMAP, {h, rnd(3)});
            if (maps && r.chance(0.6)) op(OP_SET_SMAP, {h, rnd(3)});
        }
        if (!flags_first) op(OP_SET_FLAGS, {h, fm});
        if (r.chance(0.7)) op(OP_SET_RHO, {h, r.chance(0.08) ? 5 + rnd(2) : rnd(5)});
        op(OP_SET_K, {h, r.chance(0.3) ? r.range(1, 3) : (r.chance(0.5) ? r.range(4, 16) : (r.chance(0.85) ? r.range(17, 64) : r.range(65, 256)))});
    }
    double abort_rate = 0.0; // probability that an evaluation is preceded by a cancelled one on the same workspace
    void eval(int64_t h, int checks, int ws_sel = -1, int xmode = 0, int exmode = -1)
    {
        int64_t a0 = rnd(1u << 30), a1 = ws_sel >= 0 ? ws_sel : rnd(5), a2 = exmode >= 0 ? exmode : rnd(6), a3 = rnd(1u << 30), a4 = rnd(3), a5 = r.chance(0.75) ? 1 : 0;
        int64_t af = r.chance(abort_rate) ? 1 + rnd(5) : 0, ac = rnd(1u << 20);
        if (af == 0 && r.chance(reenter_rate)) ac |= (1 << 21);
        op(OP_EVAL, {h, a0, xmode, a1, a2, a3, a4, a5, checks, af, ac});
    }
};

inline Plan gen_plan(uint64_t seed, uint64_t index, Tier tier, int profile, bool sim_maps)
{
    Gen g(seed, tier, profile, sim_maps);
    Rng &r = g.r;
    Plan &p = g.p;
    // swarm configuration: which callbacks are yield points, scheduler stickiness, cost program, map kinds
    int64_t ycfg = profile == P_C12 || profile == P_C15 ? (r.chance(0.8) ? 7 : g.rnd(8)) : g.rnd(8);
    bool small = profile == P_C19 ? r.chance(0.5) : r.chance(0.2);
    // cost-program style: mostly the smooth family; the special styles only where their oracle makes sense
    int64_t style = 0;
    {
        double u = r.unit();
        if (profile == P_C07) style = u < 0.08 ? 1 : (u < 0.16 ? 3 : 0);
        else if (profile == P_C12) style = u < 0.1 ? 2 : (u < 0.15 ? 3 : 0);
        else if (profile == P_C10 || profile == P_C08) style = u < 0.07 ? 3 : 0;
    }
    p.ci = {ycfg, g.rnd(7), g.rnd(1u << 30), small ? 1 : 0, g.rnd(5), g.rnd(12), g.rnd(15), style};
    const bool thorough = tier == Tier::Thorough;
    switch (profile)
    {
    case P_C07:
    {
        g.max_N = 6;
        g.abort_rate = r.chance(0.5) ? 0.3 : 0.0;
        g.reenter_rate = r.chance(0.3) ? 0.3 : 0.0;
        if (r.chance(0.004))
        {
            // a long trajectory (more than 64 segments), few integration steps
            g.op(OP_SET_INIT, {0, g.rnd(26), g.rnd(1u << 30), g.rnd(2), BAD_NONE, 0, 0, 2});
            g.op(OP_SET_FLAGS, {0, r.chance(0.5) ? 0 : g.rnd(256)});
            g.op(OP_SET_K, {0, r.range(1, 3)});
            g.eval(0, CHK_TWIN | CHK_FD, 0, 0, (int)g.rnd(3));
            break;
        }
        int mask = -1;
        if (thorough && index < 4096) mask = (int)(index % 256); // every flag combination at least once per universe share
        g.configure(0, true, mask);
        int evals = (int)r.range(1, 3);
        for (int e = 0; e < evals; ++e)
        {
            if (e > 0 && r.chance(0.5)) { if (r.chance(0.5)) g.op(OP_SET_FLAGS, {0, g.rnd(256)}); else { bool mm = r.chance(0.3); g.configure(0, mm); } }
            if (r.chance(0.2)) { int kind = r.chance(0.5) ? OP_COPY : OP_ASSIGN; int64_t xs = g.rnd(1u << 30); g.op(kind, {0, 1, xs}); g.eval(1, CHK_TWIN | CHK_FD); }
            g.eval(0, CHK_TWIN | CHK_FD, -1, style == 1 ? (r.chance(0.7) ? 4 : 0) : (r.chance(0.15) ? 2 : 0));
            if (r.chance(0.08)) g.op(OP_CHECKGRAD, {0, g.rnd(1u << 30), g.rnd(5), r.chance(0.7) ? 1 : 0, 0, 0, 0, 0, 0, 1 + g.rnd(1u << 20)}, {0.0});
        }
        if (r.chance(0.25))
        {
            // the gradient of a call made concurrently with others
            g.op(OP_CONCURRENT, {0, g.rnd(3), g.rnd(2) * 0, g.rnd(1u << 30), 0});
        }
        break;
    }
    case P_C08:
    {
        g.max_N = 8;
        g.configure(0, true);
        int evals = (int)r.range(1, 4);
        for (int e = 0; e < evals; ++e)
        {
            if (e > 0 && r.chance(0.4)) { int64_t hh = r.chance(0.8) ? 0 : 1; bool mm = r.chance(0.3); g.configure(hh, mm); }
            // every way of obtaining a configured optimizer, including copies of one
            if (r.chance(0.25)) { int64_t dst = 1 + g.rnd(2); int kind = r.chance(0.5) ? OP_COPY : OP_ASSIGN; int64_t xs = g.rnd(1u << 30); g.op(kind, {0, dst, xs}); g.eval(dst, CHK_TWIN | CHK_TRACE); }
            g.eval(0, CHK_TWIN | CHK_TRACE);
            if (r.chance(0.15))
            {
                // the same decision vector on the same caller-owned workspace before and after a re-initialisation that
                // changes nothing but the start time or nothing but the fixed boundary derivatives
                int64_t xs = g.rnd(1u << 30), wsel = r.range(1, 4), xm = r.chance(0.5) ? 4 : 1;
                int only = r.chance(0.5) ? 1 : 4;
                g.op(OP_EVAL, {0, xs, xm, wsel, 0, 0, 0, 1, CHK_TWIN | CHK_TRACE, 0, 0});
                g.set_init(0, 1, BAD_NONE, only);
                g.op(OP_EVAL, {0, xs, xm, wsel, 0, 0, 0, 1, CHK_TWIN | CHK_TRACE, 0, 0});
            }
        }
        // the sum and the samples of a call made while other threads evaluate on the same optimizer
        if (r.chance(0.2)) g.op(OP_CONCURRENT, {0, g.rnd(3), g.rnd(2), g.rnd(1u << 30), 0, 0});
        break;
    }
    case P_C09:
    {
        g.max_N = 6;
        // enumeration part of the thorough tier: (flags, N) from the run index, reached once fresh and once by reconfiguration
        int mask = -1;
        int64_t Nfix = -1;
        if (thorough && index < 2 * 256 * 6) { mask = (int)(index % 256); Nfix = 1 + (int64_t)((index / 256) % 6); }
        if (Nfix > 0 && index >= 256 * 6)
        {
            g.configure(0, true); // some other configuration first
            g.op(OP_GET_DIM, {0});
            if (r.chance(0.5)) g.eval(0, CHK_TWIN, 4, 1);
        }
        if (r.chance(0.5)) g.op(OP_SET_TMAP, {0, g.rnd(3)});
        if (r.chance(0.7)) g.op(OP_SET_SMAP, {0, g.rnd(3)});
        g.set_init(0, Nfix > 0 ? Nfix : g.pick_N());
        g.op(OP_SET_FLAGS, {0, mask >= 0 ? mask : g.rnd(256)});
        g.op(OP_SET_K, {0, r.range(1, 8)});
        int n = (int)r.range(3, thorough ? 16 : 10);
        for (int q = 0; q < n; ++q)
        {
            double u = r.unit();
            if (u < 0.12) g.op(OP_SET_FLAGS, {g.rnd(3), g.rnd(256)});
            else if (u < 0.2) g.op(OP_SET_SMAP, {g.rnd(3), g.rnd(3)});
            else if (u < 0.25) g.op(OP_SET_TMAP, {g.rnd(3), g.rnd(3)});
            else if (u < 0.29) { int64_t hh = g.rnd(3); int64_t nn = g.pick_N(); g.set_init(hh, nn); }
            else if (u < 0.31)
            {
                // a rejected initialisation (other segment count), then the repaired one
                int64_t hh = g.rnd(3), nn = g.pick_N();
                static const int kinds[] = {BAD_TIME_NAN, BAD_WP_NAN, BAD_TIME_BELOW, BAD_BC_NAN, BAD_ROWS_PLUS, BAD_WP_PINF};
                int bk = kinds[g.rnd(6)];
                g.set_init(hh, nn, bk);
                g.set_init(hh, nn);
                g.op(OP_GET_DIM, {hh});
                g.op(OP_INIT_GUESS, {hh});
            }
            else if (u < 0.33) { int64_t hh = g.rnd(3); g.set_init(hh, 1, BAD_NONE, 1); int chk = CHK_EXPOSED | CHK_TWIN; g.eval(hh, chk, 4, 1, 0); g.set_init(hh, 1, BAD_NONE, 1); g.eval(hh, chk, 4, 1, 0); }
            else if (u < 0.38) g.op(OP_COPY, {g.rnd(3), g.rnd(3), g.rnd(1u << 30)});
            else if (u < 0.43) g.op(OP_ASSIGN, {g.rnd(3), g.rnd(3), g.rnd(1u << 30)});
            else if (u < 0.50) g.op(OP_MUTATE_USER_MAP, {g.rnd(2), 2, g.rnd(5)});
            else if (u < 0.60) g.op(OP_GET_DIM, {g.rnd(3)});
            else if (u < 0.75) g.op(OP_INIT_GUESS, {g.rnd(3)});
            else { int64_t hh = g.rnd(3); int chk = CHK_EXPOSED | (r.chance(0.3) ? CHK_TWIN : 0); int xm = r.chance(0.8) ? 1 : 0; g.eval(hh, chk, 4, xm, 0); }
        }
        g.op(OP_GET_DIM, {0});
        g.op(OP_INIT_GUESS, {0});
        g.eval(0, CHK_EXPOSED, 4, 1, 0);
        break;
    }
    case P_C10:
    {
        g.max_N = 10;
        g.abort_rate = r.chance(0.5) ? 0.3 : 0.0;
        g.reenter_rate = r.chance(0.3) ? 0.25 : 0.0;
        g.configure(0, true);
        if (r.chance(0.8)) { g.op(OP_CONSTRUCT, {1, g.rnd(3), g.rnd(5), g.rnd(5), g.rnd(4)}); g.configure(1, true); }
        int n = (int)r.range(3, thorough ? 14 : 9);
        for (int q = 0; q < n; ++q)
        {
            double u = r.unit();
            if (u < 0.15) { int64_t hh = g.rnd(2); int64_t nn = r.chance(0.3) ? r.range(1, 2) : g.pick_N(); g.set_init(hh, nn); }
            else if (u < 0.22) g.op(OP_SET_FLAGS, {g.rnd(2), g.rnd(256)});
            else if (u < 0.3) g.op(OP_WS_COPY, {g.rnd(3), g.rnd(3), g.rnd(8)});
            else if (u < 0.33) g.op(OP_SET_K, {g.rnd(2), r.range(1, 64)});
            else if (u < 0.37)
            {
                int64_t hh = g.rnd(2), xs = g.rnd(1u << 30), wsel = r.range(1, 4);
                g.op(OP_EVAL, {hh, xs, 0, wsel, 0, 0, 0, 1, CHK_TWIN | CHK_TRACE, 0, 0});
                int only = r.chance(0.5) ? 1 : 4; // only the start time / only the fixed boundary derivatives differ
                g.set_init(hh, 1, BAD_NONE, only);
                g.op(OP_EVAL, {hh, xs, 0, wsel, 0, 0, 0, 1, CHK_TWIN | CHK_TRACE, 0, 0});
            }
            else if (u < 0.40) g.op(OP_CHECKGRAD, {g.rnd(2), g.rnd(1u << 30), r.range(1, 4), r.chance(0.7) ? 1 : 0, 0, 0, 0, 0, 0, 1 + g.rnd(1u << 20)}, {0.0});
            else { int64_t hh = g.rnd(2); int wsel = (int)r.range(1, 4); int xm = r.chance(0.25) ? 6 : 0; g.eval(hh, CHK_TWIN | (xm ? CHK_TRACE : 0), wsel, xm); } // veteran workspaces (and the built-in one)
        }
        break;
    }
    case P_C12:
    {
        g.max_N = 6;
        g.abort_rate = r.chance(0.4) ? 0.25 : 0.0;
        g.reenter_rate = r.chance(0.3) ? 0.25 : 0.0;
        // thorough tier: every order in which one thread can process the segments, for N = 1..5 (1+2+6+24+120 = 153
        // permutations), each on a fresh random problem/configuration; the block repeats so that every order/dimension
        // universe sees every permutation several times
        if (thorough && index < 153 * 400)
        {
            static const int fact[6] = {1, 1, 2, 6, 24, 120};
            int e = (int)(index % 153), N = 1;
            while (e >= fact[N]) { e -= fact[N]; ++N; }
            if (r.chance(0.5)) g.op(OP_SET_TMAP, {0, g.rnd(3)});
            if (r.chance(0.6)) g.op(OP_SET_SMAP, {0, g.rnd(3)});
            g.set_init(0, N);
            g.op(OP_SET_FLAGS, {0, g.rnd(256)});
            if (r.chance(0.7)) g.op(OP_SET_RHO, {0, g.rnd(5)});
            g.op(OP_SET_K, {0, r.range(1, 16)});
            g.op(OP_EVAL, {0, g.rnd(1u << 30), 0, g.rnd(4), 6, e, 0, r.chance(0.75) ? 1 : 0, CHK_TWIN});
            break;
        }
        g.configure(0, true);
        int n = (int)r.range(1, thorough ? 5 : 3);
        for (int q = 0; q < n; ++q)
        {
            double u = r.unit();
            if (u < 0.55) g.op(OP_CONCURRENT, {0, g.rnd(3), r.chance(0.6) ? 1 : 0, g.rnd(1u << 30), 0, (r.chance(0.3) ? 1 : 0) | (r.chance(0.15) ? 2 : 0) | (r.chance(0.15) ? 4 : 0) | (r.chance(0.2) ? 8 : 0) | (r.chance(0.15) ? 16 : 0)});
            else if (u < 0.85) g.eval(0, CHK_TWIN, -1, 0, (int)r.range(1, 5));
            else g.configure(0, r.chance(0.5));
        }
        break;
    }
    case P_C15:
    {
        g.max_N = 5;
        g.configure(0, true);
        if (r.chance(0.6)) g.eval(0, CHK_TWIN, 4); // built-in workspace exists before copying
        int n = (int)r.range(4, thorough ? 16 : 10);
        for (int q = 0; q < n; ++q)
        {
            double u = r.unit();
            if (u < 0.18) g.op(OP_COPY, {g.rnd(3), g.rnd(3), g.rnd(1u << 30), r.chance(0.25) ? 1 : 0});
            else if (u < 0.38) g.op(OP_ASSIGN, {g.rnd(3), g.rnd(3), g.rnd(1u << 30), r.chance(0.25) ? 1 : 0});
            else if (u < 0.43) g.op(OP_SELF_ASSIGN, {g.rnd(3)});
            else if (u < 0.53) g.op(OP_DESTROY, {g.rnd(3)});
            else if (u < 0.6) g.op(OP_MUTATE_USER_MAP, {g.rnd(2), g.rnd(3), g.rnd(6)});
            else if (u < 0.64) { int kk = r.chance(0.5) ? OP_SET_TMAP : OP_SET_SMAP; int64_t hh = g.rnd(3), mm = g.rnd(3); g.op(kk, {hh, mm}); }
            else if (u < 0.68) { int64_t k = g.rnd(3); g.op(OP_CONSTRUCT, {k, g.rnd(3), g.rnd(5), g.rnd(5), g.rnd(4)}); g.configure(k, true); }
            else if (u < 0.70)
            {
                // maps are installed on a freshly constructed optimizer, it is copied BEFORE any initialisation, and only
                // then both get a problem
                int64_t a = g.rnd(3), b = (a + 1 + g.rnd(2)) % 3, n0 = g.pick_N(), sd = g.rnd(1u << 30);
                g.op(OP_CONSTRUCT, {a, g.rnd(3), g.rnd(5), g.rnd(5), g.rnd(4)});
                g.op(OP_SET_TMAP, {a, 1 + g.rnd(2)});
                g.op(OP_SET_SMAP, {a, 1 + g.rnd(2)});
                g.op(r.chance(0.5) ? OP_COPY : OP_ASSIGN, {a, b, sd, 0});
                g.set_init(b, n0);
                g.eval(b, CHK_TWIN);
            }
            else if (u < 0.74) g.configure(g.rnd(3), true); // source mutation
            else if (u < 0.84) g.op(OP_CONCURRENT, {g.rnd(3), g.rnd(3), g.rnd(2), g.rnd(1u << 30), 1 + g.rnd(2)});
            else { int64_t hh = g.rnd(3); int wsel = r.chance(0.5) ? 4 : -1; g.eval(hh, CHK_TWIN, wsel); }
        }
        break;
    }
    case P_C16:
    {
        g.max_N = 6;
        int n = (int)r.range(3, thorough ? 14 : 9);
        // thorough: every fault kind at the head of some run
        int first_bad = (thorough && index < 64 * (uint64_t)BAD_N) ? (int)(index % BAD_N) : -1;
        for (int q = 0; q < n; ++q)
        {
            double u = r.unit();
            int64_t hsel = r.chance(0.8) ? 0 : g.rnd(3);
            if (q == 0 && first_bad >= 0) g.set_init(0, r.range(1, 3), first_bad);
            else if (u < 0.3) g.set_init(hsel, g.pick_N());
            else if (u < 0.75) { int64_t nn = g.pick_N(); int bk = 1 + (int)g.rnd(BAD_N - 1); g.set_init(hsel, nn, bk); }
            else if (u < 0.82) g.op(OP_VALIDITY, {hsel});
            else if (u < 0.85) { int kk = r.chance(0.6) ? OP_SET_TMAP : OP_SET_SMAP; int64_t mm = g.rnd(3); g.op(kk, {hsel, mm}); } // the verdict must not depend on the maps
            else if (u < 0.9) g.op(OP_COPY, {g.rnd(3), g.rnd(3), g.rnd(1u << 30)});
            else if (u < 0.95) g.op(OP_SET_FLAGS, {hsel, g.rnd(256)});
            else g.eval(hsel, CHK_TWIN);
        }
        g.op(OP_VALIDITY, {0});
        break;
    }
    case P_C19:
    {
        g.max_N = 4;
        if (r.chance(0.1))
        {
            // one functor checked in isolation: only a time cost (no running cost, no waypoint cost, no energy), which
            // either is correct or never writes its gradient
            p.ci[7] = 4;
            g.set_init(0, g.pick_N());
            g.op(OP_SET_FLAGS, {0, g.rnd(256)});
            g.op(OP_SET_RHO, {0, 0});
            g.op(OP_SET_K, {0, r.range(1, 8)});
            g.op(OP_CHECKGRAD, {0, g.rnd(1u << 30), g.rnd(5), 0, r.chance(0.6) ? 4 : 0, 0, 0, r.chance(0.5) ? 2 : 0, 0, 0}, {1.0});
            break;
        }
        g.configure(0, true);
        int n = (int)r.range(1, 3);
        for (int q = 0; q < n; ++q)
        {
            if (q > 0 && r.chance(0.4)) g.configure(0, r.chance(0.3));
            int functor = r.chance(0.4) ? 0 : (int)r.range(1, 3); // (functor 4, "never writes its gradient", is used with the isolated time cost above)
            double delta = (r.chance(0.5) ? 1.0 : -1.0) * r.logreal(1e-3, 1e3);
            g.op(OP_CHECKGRAD, {0, g.rnd(1u << 30), g.rnd(5), r.chance(0.7) ? 1 : 0, functor, g.rnd(16), g.rnd(8), (r.chance(0.12) ? 1 : 0) | (r.chance(0.3) ? 2 : 0), r.chance(0.25) ? 1 : 0, r.chance(0.1) ? 1 + g.rnd(1u << 20) : 0}, {delta});
        }
        break;
    }
    }
    return p;
}

#define OPT_REGISTER_ONE(PROP, PROF, TAG, SPLINE, TMAP, SMAP, SIM, WEIGHT)                                                   \
    namespace                                                                                                               \
    {                                                                                                                       \
    sim::Plan gen_##PROP##_##TAG(uint64_t s, uint64_t i, sim::Tier t) { return optw::gen_plan(s, i, t, optw::PROF, SIM); }   \
    sim::Register reg_##PROP##_##TAG(sim::Workload{#PROP, "opt_" #TAG, gen_##PROP##_##TAG, optw::exec_plan<SPLINE, TMAP, SMAP>, optw::kNames, optw::OP_N, true, WEIGHT}); \
    }

} // namespace optw
