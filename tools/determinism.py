#!/usr/bin/env python3
"""Determinism proof on a large sample (development/validation tool).

For every claimed property: the same batch of seeds is executed in several processes
with 1, 4 and 16 workers, in the plain and the asan variant (and tsan for C12), and
the per-run event-log digests are compared pairwise.  Any difference is a harness
defect.  Usage: tools/determinism.py [runs-per-property, default 4000] [build dir]
"""
import os, subprocess, sys, json

ROOT = os.path.dirname(os.path.dirname(os.path.abspath(__file__)))
runs = int(sys.argv[1]) if len(sys.argv) > 1 else 4000
B = sys.argv[2] if len(sys.argv) > 2 else os.path.join(ROOT, "build")
props = ["C03", "C05", "C07", "C08", "C09", "C10", "C11", "C12", "C15", "C16", "C19"]
bad = 0
total = 0
for p in props:
    ref = None
    configs = [("plain", 16), ("plain", 4), ("plain", 1), ("asan", 16), ("asan", 3)]
    if p == "C12":
        configs += [("tsan", 16), ("tsan", 2)]
    for variant, w in configs:
        n = runs if variant == "plain" else max(200, runs // 8)
        if p in ("C07", "C19"):
            n = max(200, n // 4)
        dig = os.path.join(B, f"det_{p}_{variant}_{w}.txt")
        r = subprocess.run([os.path.join(B, f"stsim_{variant}"), "run", "--prop", p, "--seed", "777", "--runs", str(n), "--workers", str(w),
                            "--out", os.path.join(B, "det_tmp.json"), "--digests", dig, "--replay-dir", os.path.join(B, "det_replays")],
                           stdout=subprocess.PIPE, stderr=subprocess.PIPE, text=True)
        d = dict(l.split() for l in open(dig))
        total += len(d)
        if ref is None:
            ref = d
            continue
        diff = [k for k in d if ref.get(k) != d[k]]
        if diff:
            bad += len(diff)
            print(f"MISMATCH {p} {variant} w={w}: {len(diff)} of {len(d)} runs differ, e.g. run {diff[0]}")
    print(f"{p}: {len(ref)} seeds, configurations {configs} compared", flush=True)
print(f"determinism: {total} executions compared, {bad} mismatches")
sys.exit(1 if bad else 0)
