#!/bin/bash
# Runs the repository's own test programs with the verification guard OFF (nothing in
# /repo is guarded today: no -DSPLINETRAJECTORY_VERIF is passed) in a scratch build
# directory outside /repo and /verif, parses their PASS/FAIL lines and compares with
# the stable baseline in /root/.vp/BASELINE.json.  Exit 0 = every stable test passed.
set -u
REPO=${REPO:-/repo}
S=$(mktemp -d /tmp/st_baseline.XXXXXX)
trap 'rm -rf "$S"' EXIT
cmake -G Ninja -S "$REPO" -B "$S/build" -DCMAKE_BUILD_TYPE=Release >"$S/cmake.log" 2>&1 || { cat "$S/cmake.log"; echo "BASELINE: configure failed"; exit 2; }
cmake --build "$S/build" -j16 >"$S/build.log" 2>&1 || { tail -30 "$S/build.log"; echo "BASELINE: build failed"; exit 2; }
: > "$S/out.txt"
for t in test_Grad test_bc_grad test_cost_grad test_ppolyND test_cubic_spline_vs_minco_nd test_quintic_spline_vs_minco_nd test_septic_spline_vs_minco_nd test_with_min_jerk_3d test_with_min_snap_3d; do
  if [ -x "$S/build/$t" ]; then
    echo "### $t" >> "$S/out.txt"
    (cd "$S/build" && timeout 900 "./$t") >> "$S/out.txt" 2>&1
    echo "### exit $t $?" >> "$S/out.txt"
  fi
done
python3 - "$S/out.txt" <<'EOF'
import json, re, sys
text = open(sys.argv[1], errors='replace').read()
text = re.sub(r'\x1b\[[0-9;]*m', '', text)
res = {}
for line in text.splitlines():
    m = re.match(r'^\s*\[(PASS|FAIL)\]\s+(.*?)(?::.*)?$', line)
    if m:
        name, ok = m.group(2).strip(), m.group(1) == 'PASS'
    else:
        m = re.match(r'^\s*(.+?)\s*:\s*(PASS|FAIL)\b', line)
        if not m:
            continue
        name, ok = m.group(1).strip(), m.group(2) == 'PASS'
    res[name] = res.get(name, True) and ok
base = json.load(open('/root/.vp/BASELINE.json'))
stable = base['stable_pass']
missing = [n for n in stable if n not in res]
failed = [n for n in stable if n in res and not res[n]]
print(f"BASELINE: {sum(1 for n in stable if res.get(n))}/{len(stable)} stable tests passed; {len(res)} test names seen")
if missing: print("BASELINE missing:", missing)
if failed: print("BASELINE failed:", failed)
sys.exit(0 if not missing and not failed else 1)
EOF
