#!/bin/bash
# Sensitivity helper (development only, not used by any registered check):
#   tools/mutant.sh <name> <props,comma> <variant> -- <sed script on SplineTrajectory.hpp> [-- <sed script on SplineOptimizer.hpp>]
#   tools/mutant.sh <name> <props,comma> <variant> --patch <file.diff>
# Copies /repo/include to a scratch tree outside /repo and /verif, applies the
# change, builds the simulator against it in a scratch build directory, runs the
# quick batch of each property and removes everything again.
set -u
name=$1; props=$2; variant=$3; shift 3
S=/tmp/stmut-$name
rm -rf "$S"; mkdir -p "$S"
cp -r /repo/include "$S/include"
if [ "$1" = "--patch" ]; then
  (cd "$S" && patch -p1 -s < "$2") || { echo "patch failed"; rm -rf "$S"; exit 2; }
else
  shift
  sed -i "$1" "$S/include/SplineTrajectory.hpp"
  if [ $# -ge 3 ]; then sed -i "$3" "$S/include/SplineOptimizer.hpp"; fi
fi
if diff -rq /repo/include "$S/include" >/dev/null; then echo "MUTANT $name: no change applied"; rm -rf "$S"; exit 2; fi
diff -r /repo/include "$S/include" | head -12
cd /verif
make -j16 REPO="$S" B="$S/build" $variant 2>&1 | grep -E "error|Error" | head
rc=0
for p in ${props//,/ }; do
  runs=${RUNS:-4000}
  out=$(timeout 900 "$S/build/stsim_$variant" run --prop $p --seed ${SEED:-1} --runs $runs --workers 16 --out "$S/$p.json" --replay-dir "$S/replays" 2>&1 | grep -v "ASan doesn't" | tail -4)
  if echo "$out" | grep -q "CANDIDATE"; then echo "MUTANT $name: CAUGHT by $p"; echo "$out" | grep CANDIDATE | head -2; else echo "MUTANT $name: MISSED by $p"; echo "$out" | tail -2; rc=1; fi
done
rm -rf "$S"
exit $rc
