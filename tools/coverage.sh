#!/bin/bash
# Reach measurement (development tool): builds a clang source-coverage variant of the simulator in a scratch
# directory, runs a batch of every claimed property and reports which lines of the two library headers were
# never executed.  Usage: tools/coverage.sh [runs per property, default 3000]
set -u
RUNS=${1:-3000}
S=/tmp/stcov
rm -rf $S; mkdir -p $S
cd /verif
make -j16 REPO=/repo B=$S/build cov 2>&1 | grep -E "error" -A5
for p in C03 C05 C07 C08 C09 C10 C11 C12 C15 C16 C19; do
  r=$RUNS; case $p in C07|C19) r=$((RUNS/6));; esac
  LLVM_PROFILE_FILE="$S/prof/%8m.profraw" timeout 3000 $S/build/stsim_cov run --prop $p --seed 3 --runs $r --workers 8 --out $S/$p.json --replay-dir $S/replays 2>&1 | tail -1
done
llvm-profdata-14 merge -sparse $S/prof/*.profraw -o $S/all.profdata
llvm-cov-14 report $S/build/stsim_cov -instr-profile=$S/all.profdata /repo/include/SplineTrajectory.hpp /repo/include/SplineOptimizer.hpp 2>/dev/null | grep -E "Spline(Trajectory|Optimizer).hpp|TOTAL" | cut -c1-200
llvm-cov-14 show $S/build/stsim_cov -instr-profile=$S/all.profdata /repo/include/SplineTrajectory.hpp /repo/include/SplineOptimizer.hpp -show-line-counts-or-regions=false 2>/dev/null \
  | awk -F'|' '/^\/repo/{file=$0} /^ +[0-9]+\| +0\|/{print file ":" $1 ":" $3}' | sed 's/ \+/ /g' > /verif/build/uncovered_lines.txt
wc -l /verif/build/uncovered_lines.txt
rm -rf $S
