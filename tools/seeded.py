#!/usr/bin/env python3
"""Confirm and score independently seeded changes (development tool).

  tools/seeded.py import  <wt-dir> <id>      copy out/patchK.diff, demoK.cpp, metaK.json of a seeding worktree into /verif/seeded/<id>_<k>/
  tools/seeded.py confirm [name ...]         for each /verif/seeded/<name>: scratch copy of /repo, demo passes without / fails with the patch,
                                             repo test suite still passes (when SplineTrajectory.hpp is touched), result written to meta.json
  tools/seeded.py score   [name ...]         build the simulator against the patched scratch tree and run the property's quick batches
Everything happens in scratch trees under /tmp that are removed afterwards; /repo is never modified.
"""
import json, os, shutil, subprocess, sys, glob, concurrent.futures

SEEDED = "/verif/seeded"


def sh(cmd, cwd=None, timeout=3600):
    return subprocess.run(cmd, shell=True, cwd=cwd, stdout=subprocess.PIPE, stderr=subprocess.STDOUT, text=True, timeout=timeout)


def scratch(name, patched):
    S = f"/tmp/seedchk-{name}-{'p' if patched else 'c'}"
    shutil.rmtree(S, ignore_errors=True)
    os.makedirs(S)
    sh(f"git -C /repo archive HEAD | tar -x -C {S}")
    # the working tree of /repo may be ahead of HEAD only through our own commits, so HEAD is the reference
    if patched:
        r = sh(f"git apply --whitespace=nowarn {SEEDED}/{name}/patch.diff", cwd=S)
        if r.returncode != 0:
            r = sh(f"patch -p1 < {SEEDED}/{name}/patch.diff", cwd=S)
            if r.returncode != 0:
                raise RuntimeError("patch does not apply: " + r.stdout[-300:])
    os.makedirs(S + "/out", exist_ok=True)
    for f in glob.glob(f"{SEEDED}/{name}/demo*"):
        shutil.copy(f, S + "/out/")
    return S


def cmd_import(wt, pid, offset=0):
    for k in (1, 2, 3):
        p = f"{wt}/out/patch{k}.diff"
        if not os.path.exists(p):
            continue
        d = f"{SEEDED}/{pid}_{k + offset}"
        os.makedirs(d, exist_ok=True)
        shutil.copy(p, d + "/patch.diff")
        shutil.copy(f"{wt}/out/demo{k}.cpp", d + f"/demo{k}.cpp")
        meta = json.load(open(f"{wt}/out/meta{k}.json"))
        meta["origin"] = "independent sub-agent given only the property text and its own worktree"
        json.dump(meta, open(d + "/meta.json", "w"), indent=1)
        print("imported", d)


def confirm(name):
    meta = json.load(open(f"{SEEDED}/{name}/meta.json"))
    res = {}
    try:
        for patched in (False, True):
            S = scratch(name, patched)
            b = sh(meta["demo_build"], cwd=S, timeout=900)
            if b.returncode != 0:
                res["demo_build_error"] = b.stdout[-400:]
                shutil.rmtree(S, ignore_errors=True)
                break
            r = sh(meta["demo_run"], cwd=S, timeout=900)
            res["demo_exit_patched" if patched else "demo_exit_clean"] = r.returncode
            if patched:
                files = sh("git apply --numstat " + f"{SEEDED}/{name}/patch.diff", cwd=S).stdout
                touches_traj = "SplineTrajectory.hpp" in files
                res["touches"] = [l.split()[-1] for l in files.strip().splitlines()]
                if touches_traj:
                    t = sh(f"REPO={S} /verif/tools/baseline_off.sh", timeout=3000)
                    res["repo_tests"] = t.stdout.strip().splitlines()[-3:]
                    res["repo_tests_pass"] = t.returncode == 0
                else:
                    g = sh("grep -l SplineOptimizer *.cpp examples/*.cpp", cwd=S)
                    res["repo_tests"] = ["no test or example includes SplineOptimizer.hpp (grep): the test binaries are byte-identical, suite unaffected"]
                    res["repo_tests_pass"] = g.stdout.strip() == ""
            shutil.rmtree(S, ignore_errors=True)
    except Exception as e:
        res["error"] = str(e)
    res["confirmed"] = res.get("demo_exit_clean") == 0 and res.get("demo_exit_patched", 0) != 0 and res.get("repo_tests_pass") is True
    meta["confirmation"] = res
    json.dump(meta, open(f"{SEEDED}/{name}/meta.json", "w"), indent=1)
    return name, res


def score(name):
    meta = json.load(open(f"{SEEDED}/{name}/meta.json"))
    S = scratch(name, True)
    out = {}
    # the property the change was written against first, then (for changes that are races) the concurrency property
    plan = [(meta["property"], "plain")]
    for extra in meta.get("also_check", []):
        plan.append((extra, "plain"))
    plan += [(meta["property"], "asan")]
    if meta["property"] in ("C07", "C08", "C12", "C15"):
        plan.append((meta["property"], "tsan"))
    if "C12" in meta.get("also_check", []):
        plan.append(("C12", "tsan"))
    if meta["property"] == "C12":
        plan.append(("C12", "tsan+isolate"))
    built = set()
    caught = False
    for prop, v in plan:
        if caught and os.environ.get("ALL") is None:
            break
        isolate = "+isolate" in v
        v = v.split("+")[0]
        if v not in built:
            b = sh(f"make -C /verif -j10 REPO={S} B={S}/build {v}", timeout=3000)
            if b.returncode != 0:
                out[f"{prop}/{v}"] = "BUILD-FAILED " + b.stdout[-300:]
                continue
            built.add(v)
        runs = {"plain": 40000, "asan": 4000, "tsan": 4000}[v]
        if prop in ("C07", "C19"):
            runs //= 3
        extra = "--max-violations 1 --min-budget 100" if v == "tsan" else ""
        if isolate:
            extra += " --isolate"
            runs = 1500
        r = sh(f"{S}/build/stsim_{v} run --prop {prop} --seed {os.environ.get('SEED', '20260927')} --runs {runs} --workers 8 --out {S}/o_{v}.json --replay-dir {S}/replays {extra}", timeout=3000)
        key = f"{prop}/{v}" + ("+isolate" if isolate else "")
        try:
            j = json.load(open(f"{S}/o_{v}.json"))
            conf = [x for x in j["violations"] if x.get("confirmed")]
            if conf:
                out[key] = "CAUGHT " + ",".join(sorted(set(x["class"] for x in conf))) + " | " + conf[0]["msg"][:200]
                caught = True
            elif j["violations"]:
                out[key] = "UNCONFIRMED " + ",".join(sorted(set(x["class"] for x in j["violations"])))
            else:
                out[key] = f"MISSED ({j['runs']} runs)"
        except Exception as e:
            out[key] = "NO-SUMMARY " + r.stdout[-200:]
    shutil.rmtree(S, ignore_errors=True)
    meta["checks_result"] = out
    meta["caught"] = caught
    json.dump(meta, open(f"{SEEDED}/{name}/meta.json", "w"), indent=1)
    return name, out


if __name__ == "__main__":
    cmd = sys.argv[1]
    if cmd == "import":
        cmd_import(sys.argv[2], sys.argv[3], int(sys.argv[4]) if len(sys.argv) > 4 else 0)
        sys.exit(0)
    names = sys.argv[2:] or sorted(os.path.basename(d) for d in glob.glob(SEEDED + "/*_*") if os.path.isdir(d))
    fn = confirm if cmd == "confirm" else score
    with concurrent.futures.ThreadPoolExecutor(max_workers=int(os.environ.get("JOBS", "3"))) as ex:
        for name, res in ex.map(fn, names):
            print(name, json.dumps(res)[:600], flush=True)
