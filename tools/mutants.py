#!/usr/bin/env python3
"""Sensitivity table (development tool, not a registered check).

Applies each hand-written mutant to a scratch copy of /repo/include (outside /repo and
/verif), rebuilds the simulator against it in a scratch build directory, runs the quick
batch of the named property and reports CAUGHT/MISSED.  Scratch trees are removed.

  tools/mutants.py [name-substring ...]      run the selected mutants (default: all), 4 at a time
"""
import os, shutil, subprocess, sys, json, concurrent.futures

O = "SplineOptimizer.hpp"
T = "SplineTrajectory.hpp"
# (name, property, variant, file, old, new, [occurrence index, default 0])
MUTANTS = [
    # ---- C03
    ("c03_hint_same_le", "C03", "plain", T, "if (t >= breakpoints_[idx] && t < breakpoints_[idx + 1])", "if (t >= breakpoints_[idx] && t <= breakpoints_[idx + 1])"),
    ("c03_hint_next_le", "C03", "plain", T, "t < breakpoints_[idx + 2])", "t <= breakpoints_[idx + 2])"),
    ("c03_hint_not_advanced", "C03", "plain", T, "*last_idx_hint = idx + 1;", ";"),
    ("c03_upper_bound_off_by_one", "C03", "plain", T, "std::distance(breakpoints_.begin(), it)) - 1;", "std::distance(breakpoints_.begin(), it));"),
    ("c03_dynamic_factor_table", "C03", "plain", T, "acc *= static_cast<double>(n - k + 1);\n                    derivative_factor_table_(n, k) = acc;", "acc *= static_cast<double>(n - k);\n                    derivative_factor_table_(n, k) = acc;"),
    ("c03_clamp_back_gt", "C03", "plain", T, "if (t >= breakpoints_.back())", "if (t > breakpoints_.back())"),
    # ---- C05
    ("c05_cubic_lambda_not_zeroed", "C05", "plain", T, "ws_lambda_.resize(n + 1, DIM);\n            ws_lambda_.setZero();", "ws_lambda_.resize(n + 1, DIM);"),
    ("c05_quintic_drop_gc1", "C05", "plain", T, "RowVectorType grad_v_curr = gc1;", "RowVectorType grad_v_curr = gc1 * 0.0;"),
    ("c05_septic_dim_gt3_constant", "C05", "plain", T, "(360.0 * V_curr * tp.h5_inv) - (312.0 * V_next * tp.h5_inv)", "(360.0 * V_curr * tp.h5_inv) - (321.0 * V_next * tp.h5_inv)"),
    ("c05_septic_dim_le3_constant", "C05", "plain", T, "(360.0 * V_curr(j) * tp.h5_inv) - (312.0 * V_next(j) * tp.h5_inv)", "(360.0 * V_curr(j) * tp.h5_inv) - (321.0 * V_next(j) * tp.h5_inv)"),
    # ---- C07
    ("c07_drop_explicit_time_term", "C07", "plain", O, "local_acc_gdT += gt * alpha * common_weight;", ";"),
    ("c07_suffix_loop_short", "C07", "plain", O, "for (int i = num_segments_ - 1; i > 0; --i)", "for (int i = num_segments_ - 1; i > 1; --i)"),
    ("c07_backward_wrong_tau", "C07", "plain", O, "double tau = x(i);\n                double T = ws_ref.cache_times[i];", "double tau = x(0);\n                double T = ws_ref.cache_times[i];"),
    ("c07_energy_grad_end_a_missing", "C07", "plain", O, "if constexpr (SplineType::ORDER >= 5) ws_ref.grads.end.a += rho_energy_ * ws_ref.energy_grads.end.a;", ";"),
    # ---- C08
    ("c08_trapezoid_end_weight", "C08", "plain", O, "(k == 0 || k == K) ? 0.5 : 1.0", "(k == 0 || k == K) ? 1.0 : 1.0"),
    ("c08_global_time_from_zero", "C08", "plain", O, "double running_time = start_time_;", "double running_time = 0.0;"),
    ("c08_septic_snap_basis", "C08", "plain", T, "840 * t3;", "480 * t3;"),
    # ---- C09
    ("c09_flags_not_dirty", "C09", "plain", O, "flags_ = flags;\n            markLayoutDirty();", "flags_ = flags;"),
    ("c09_guess_swaps_end_v_a", "C09", "plain", O, "if (flags_.end_v) op(bc.end_velocity);\n                if constexpr (SplineType::ORDER >= 5) if (flags_.end_a) op(bc.end_acceleration);",
     "if constexpr (SplineType::ORDER >= 5) if (flags_.end_a) op(bc.end_acceleration);\n                if (flags_.end_v) op(bc.end_velocity);"),
    ("c09_deriv_offset_off", "C09", "plain", O, "derivatives_offset_ = offset;\n            total_dimension_", "derivatives_offset_ = offset + DIM;\n            total_dimension_"),
    ("c09_smap_not_dirty", "C09", "plain", O, "active_spatial_map_ = (map != nullptr) ? map : &default_spatial_map_;\n            markLayoutDirty();", "active_spatial_map_ = (map != nullptr) ? map : &default_spatial_map_;"),
    # ---- C10
    ("c10_explicit_time_buffer_not_zeroed", "C10", "plain", O, "ws.explicit_time_grad_buffer.setZero();", ";"),
    ("c10_workspace_only_grows", "C10", "plain", O, "if (static_cast<int>(cache_times.size()) != num_segments)", "if (static_cast<int>(cache_times.size()) < num_segments)"),
    ("c10_gdT_not_zeroed", "C10", "plain", O, "ws_ref.cache_gdT.setZero();", ";"),
    ("c10_segment_costs_not_cleared", "C10", "plain", O, "std::fill(ws.segment_costs.begin(), ws.segment_costs.end(), 0.0);", ";"),
    # ---- C11
    ("c11_no_invalidate_on_success", "C11", "plain", T, "num_segments_ = static_cast<int>(breakpoints_.size()) - 1;\n            invalidateDerivativeCaches();", "num_segments_ = static_cast<int>(breakpoints_.size()) - 1;"),
    ("c11_trajectory_only_on_size_change", "C11", "plain", T, "trajectory_.update(cumulative_times_, coeffs_, 4);", "if (trajectory_.getNumSegments() != num_segments_) trajectory_.update(cumulative_times_, coeffs_, 4);"),
    # ---- C12
    ("c12_cost_reduced_in_lambda", "C12", "plain", O, "ws.segment_costs[i] = local_acc_cost;", "ws.segment_costs[i] = 0.0; cost += local_acc_cost;"),
    ("c12_suffix_in_lambda", "C12", "plain", O, "ws.explicit_time_grad_buffer(i) += local_acc_explicit_time_grad;", "ws.explicit_time_grad_buffer(i) += local_acc_explicit_time_grad; for (int q = 0; q < i; ++q) gdT(q) += local_acc_explicit_time_grad;", ),
    ("c12_cost_reduced_in_lambda_tsan", "C12", "tsan", O, "ws.segment_costs[i] = local_acc_cost;", "ws.segment_costs[i] = 0.0; cost += local_acc_cost;"),
    ("c12_no_double_check", "C12", "plain", O, "std::lock_guard<std::mutex> lock(layout_mutex_);\n            if (layout_dirty_.load(std::memory_order_relaxed))\n            {\n                rebuildLayoutCache();\n            }", "rebuildLayoutCache();"),
    ("c12_no_double_check_tsan", "C12", "tsan", O, "std::lock_guard<std::mutex> lock(layout_mutex_);\n            if (layout_dirty_.load(std::memory_order_relaxed))\n            {\n                rebuildLayoutCache();\n            }", "rebuildLayoutCache();"),
    ("c12_relock_deadlock", "C12", "plain", O, "void rebuildLayoutCache() const\n        {\n            spatial_layout_.clear();", "void rebuildLayoutCache() const\n        {\n            std::lock_guard<std::mutex> relock(layout_mutex_);\n            spatial_layout_.clear();"),
    ("c12_flag_cleared_before_rebuild", "C12", "plain", O, "if (layout_dirty_.load(std::memory_order_relaxed))\n            {\n                rebuildLayoutCache();", "if (layout_dirty_.exchange(false))\n            {\n                rebuildLayoutCache();"),
    # ---- C15
    ("c15_copy_keeps_time_map_pointer", "C15", "plain", O, "active_time_map_ = (other.active_time_map_ == &other.default_time_map_)\n                              ? &default_time_map_\n                              : other.active_time_map_;", "active_time_map_ = other.active_time_map_;"),
    ("c15_copy_keeps_time_map_pointer_asan", "C15", "asan", O, "active_time_map_ = (other.active_time_map_ == &other.default_time_map_)\n                              ? &default_time_map_\n                              : other.active_time_map_;", "active_time_map_ = other.active_time_map_;"),
    ("c15_assign_keeps_old_ws", "C15", "plain", O, "else\n                    internal_ws_.reset();", "else\n                    {}"),
    ("c15_copy_omits_flags", "C15", "plain", O, "flags_(other.flags_),", "flags_(),"),
    ("c15_assign_spatial_pointer", "C15", "plain", O, "active_spatial_map_ = (other.active_spatial_map_ == &other.default_spatial_map_)\n                                      ? &default_spatial_map_\n                                      : other.active_spatial_map_;", "active_spatial_map_ = other.active_spatial_map_;", 0),
    # ---- C16
    ("c16_threshold_le", "C16", "plain", O, "} else if (t < MIN_VALID_DURATION) {", "} else if (t <= MIN_VALID_DURATION) {"),
    ("c16_end_acc_not_checked", "C16", "plain", O, "if (!ref_bc_.end_acceleration.array().isFinite().all()) {", "if (false) {"),
    ("c16_at_bound", "C16", "plain", T, "if (idx < 0 || idx >= num_segments_)", "if (idx < 0 || idx > num_segments_)"),
    ("c16_error_not_cleared", "C16", "plain", O, "last_error_message_.clear();\n            \n            start_time_ = start_time;", "start_time_ = start_time;"),
    ("c16_start_time_not_checked", "C16", "plain", O, "if (!std::isfinite(start_time_)) {", "if (false) {"),
    # ---- C19
    ("c19_no_restore", "C19", "plain", O, "x_temp(i) = old_val;", ";"),
    ("c19_divide_by_eps", "C19", "plain", O, "res.numerical(i) = (c_p - c_m) / (2 * eps);", "res.numerical(i) = (c_p - c_m) / (eps);"),
    ("c19_no_final_reevaluation", "C19", "plain", O, "evaluate(x, res.analytical, tf, wf, ifc, &ws_ref);\n\n            Eigen::VectorXd diff", "Eigen::VectorXd diff"),
    ("c19_always_valid", "C19", "plain", O, "res.valid = (res.error_norm < tol);", "res.valid = true;"),
]


def run(m):
    name, prop, variant, fname, old, new = m[:6]
    occ = m[6] if len(m) > 6 else 0
    S = f"/tmp/stmut-{name}"
    shutil.rmtree(S, ignore_errors=True)
    os.makedirs(S)
    shutil.copytree("/repo/include", S + "/include")
    p = f"{S}/include/{fname}"
    s = open(p).read()
    idx = -1
    for _ in range(occ + 1):
        idx = s.find(old, idx + 1)
    if idx < 0:
        shutil.rmtree(S, ignore_errors=True)
        return name, prop, "NOT-APPLIED", ""
    s = s[:idx] + new + s[idx + len(old):]
    open(p, "w").write(s)
    r = subprocess.run(["make", "-C", "/verif", "-j6", f"REPO={S}", f"B={S}/build", variant], stdout=subprocess.PIPE, stderr=subprocess.STDOUT, text=True)
    if r.returncode != 0:
        tail = r.stdout[-400:]
        shutil.rmtree(S, ignore_errors=True)
        return name, prop, "BUILD-FAILED", tail
    runs = os.environ.get("RUNS", "6000" if variant == "plain" else "1500")
    cmd = [f"{S}/build/stsim_{variant}", "run", "--prop", prop, "--seed", os.environ.get("SEED", "11"), "--runs", runs, "--workers", "8", "--out", f"{S}/o.json", "--replay-dir", f"{S}/replays"]
    if variant == "tsan":
        cmd += ["--max-violations", "1", "--min-budget", "100"]
    r = subprocess.run(cmd, stdout=subprocess.PIPE, stderr=subprocess.PIPE, text=True)
    verdict, detail = "MISSED", ""
    try:
        j = json.load(open(f"{S}/o.json"))
        if j["violations"]:
            verdict = "CAUGHT"
            classes = sorted(set(v["class"] for v in j["violations"]))
            detail = ",".join(classes) + " | " + j["violations"][0]["msg"][:160]
        if j["harness_errors"]:
            detail += " HARNESS:" + j["harness_errors"][0][:160]
    except Exception as e:
        verdict, detail = "NO-SUMMARY", (r.stderr or "")[-300:]
    shutil.rmtree(S, ignore_errors=True)
    return name, prop, verdict, detail


if __name__ == "__main__":
    sel = [m for m in MUTANTS if not sys.argv[1:] or any(a in m[0] for a in sys.argv[1:])]
    with concurrent.futures.ThreadPoolExecutor(max_workers=int(os.environ.get("JOBS", "4"))) as ex:
        for name, prop, verdict, detail in ex.map(run, sel):
            print(f"{verdict:12s} {prop} {name:40s} {detail}", flush=True)
