// One-off cross-check of the F1 repair with REAL threads (not part of any registered check; the
// registered C12 check is the simulation).  Several std::threads make their first evaluation on a
// freshly (re)configured optimizer, each with its own workspace; results must equal the serial ones
// and ThreadSanitizer must stay silent.
//   clang++ -std=c++17 -O1 -g -fsanitize=thread -pthread -I<include> -isystem /usr/include/eigen3 tools/realthreads_f1.cpp
#include "SplineOptimizer.hpp"
#include <thread>
#include <vector>
#include <cstdio>
#include <cstring>
#include <random>

using namespace SplineTrajectory;
constexpr int DIM = 2;
using Opt = SplineOptimizer<DIM>;

struct TimeCost
{
    double operator()(const std::vector<double> &T, Eigen::VectorXd &g) const
    {
        double c = 0;
        for (size_t i = 0; i < T.size(); ++i) { c += T[i]; g((long)i) = 1.0; }
        return c;
    }
};
struct RunCost
{
    template <class V>
    double operator()(double, double, int, const V &p, const V &v, const V &, const V &, const V &, V &gp, V &gv, V &, V &, V &, double &) const
    {
        gp = p;
        gv = 0.1 * v;
        return 0.5 * p.squaredNorm() + 0.05 * v.squaredNorm();
    }
};

int main(int argc, char **argv)
{
    int iters = argc > 1 ? atoi(argv[1]) : 2000;
    std::mt19937_64 rng(7);
    std::uniform_real_distribution<double> U(-1, 1);
    Opt opt;
    int bad = 0;
    for (int it = 0; it < iters; ++it)
    {
        int N = 2 + it % 5;
        std::vector<double> T(N);
        Opt::WaypointsType P(N + 1, DIM);
        for (int i = 0; i < N; ++i) T[i] = 0.5 + 0.5 * (U(rng) + 1);
        for (int i = 0; i <= N; ++i)
            for (int d = 0; d < DIM; ++d) P(i, d) = 3 * U(rng);
        BoundaryConditions<DIM> bc;
        opt.setInitState(T, P, 0.0, bc);
        OptimizationFlags f;
        f.start_p = it & 1;
        f.end_v = it & 2;
        opt.setOptimizationFlags(f); // cold: no single-threaded call follows
        Opt ref(opt);
        Eigen::VectorXd x0 = ref.generateInitialGuess();
        const int nt = 4;
        std::vector<Eigen::VectorXd> xs(nt, x0), gs(nt), gr(nt);
        std::vector<double> cs(nt), cr(nt);
        for (int t = 0; t < nt; ++t)
            for (long k = 0; k < x0.size(); ++k) xs[t](k) += 0.1 * U(rng);
        std::vector<std::thread> th;
        for (int t = 0; t < nt; ++t)
            th.emplace_back([&, t]() {
                Opt::Workspace ws;
                gs[t].resize(x0.size());
                cs[t] = opt.evaluate(xs[t], gs[t], TimeCost(), RunCost(), &ws);
            });
        for (auto &t : th) t.join();
        for (int t = 0; t < nt; ++t)
        {
            Opt::Workspace ws;
            gr[t].resize(x0.size());
            cr[t] = ref.evaluate(xs[t], gr[t], TimeCost(), RunCost(), &ws);
            if (std::memcmp(&cr[t], &cs[t], 8) != 0 || gr[t].size() != gs[t].size() || std::memcmp(gr[t].data(), gs[t].data(), 8 * gr[t].size()) != 0) ++bad;
        }
    }
    std::printf("iterations %d, differing results %d\n", iters, bad);
    return bad ? 1 : 0;
}
