#!/usr/bin/env python3
"""Per-property check driver.

  ./check.py <id> [--tier quick|thorough]     run the check of one property
  ./check.py replay <file>                    replay one minimised plan (exit 1 = violation reproduced)

Every run rebuilds the simulator from /repo's current working tree (make; the units
that include the library are rebuilt whenever the content of the two headers
changed), executes seeded batches in the variants the property needs, verifies on a
sample that the same seeds give bit-identical event logs with another worker
count, writes /verif/evidence/<id>.json and prints

  VIOLATION property=<id> replay=<path>      (exit 1)   for every reproduced, unlisted violation
  KNOWN-FINDING: property=<id> <what>        (exit 0)   for violations listed in known_findings.txt
exit 2 = trouble in the machinery itself (never reported as a violation).
"""
import json, os, subprocess, sys, time, glob, re

ROOT = os.path.dirname(os.path.abspath(__file__))
REPO = os.environ.get("VERIF_REPO", "/repo")
BUILD_ROOT = os.path.join(ROOT, "build")


def header_hash():
    import hashlib
    h = hashlib.sha256()
    for f in ("SplineTrajectory.hpp", "SplineOptimizer.hpp"):
        h.update(open(os.path.join(REPO, "include", f), "rb").read())
    return h.hexdigest()[:16]


# Build output is keyed by the content of the two library headers: every check rebuilds from /repo's current
# working tree, and going back to a tree that was built before (apply a change, check, undo) costs nothing.
B = os.path.join(BUILD_ROOT, "cache", header_hash())

# runs per (variant) and tier; measured throughput is recorded in the evidence
CFG = {
    #        quick                                        thorough
    "C03": ({"plain": 300000, "asan": 30000},             {"plain": 12000000, "asan": 1000000}),
    "C05": ({"plain": 60000, "asan": 8000},               {"plain": 2500000, "asan": 250000}),
    "C07": ({"plain": 20000, "asan": 2000, "tsan": 600},  {"plain": 800000, "asan": 60000, "tsan": 20000}),
    "C08": ({"plain": 100000, "asan": 10000, "tsan": 3000}, {"plain": 4000000, "asan": 300000, "tsan": 100000}),
    "C09": ({"plain": 300000, "asan": 30000},             {"plain": 10000000, "asan": 1000000}),
    "C10": ({"plain": 150000, "asan": 15000},             {"plain": 8000000, "asan": 600000}),
    "C11": ({"plain": 400000, "asan": 40000},             {"plain": 15000000, "asan": 1200000}),
    # "+isolate": every run in a process of its own, so that nothing of the library has run before the concurrent phase
    # (first-use races on process-wide state such as function-local statics)
    "C12": ({"plain": 100000, "tsan": 6000, "tsan+isolate": 1500, "asan": 8000}, {"plain": 4000000, "tsan": 250000, "tsan+isolate": 60000, "asan": 300000}),
    "C15": ({"plain": 60000, "asan": 15000, "tsan": 3000}, {"plain": 2500000, "asan": 500000, "tsan": 100000}),
    "C16": ({"plain": 300000, "asan": 30000},             {"plain": 10000000, "asan": 1000000}),
    "C19": ({"plain": 20000, "asan": 2000},               {"plain": 800000, "asan": 60000}),
}

REAL_VS_STUB = {
    "real_code": ["PPolyND", "CubicSplineND/QuinticSplineND/SepticSplineND", "SplineOptimizer (evaluate, checkGradients, setters, copy operations)",
                  "QuadInvTimeMap", "IdentityTimeMap", "IdentitySpatialMap", "SerialExecutor", "VoidWaypointsCost", "std::mutex/std::atomic inside the library (blocking redirected to the cooperative scheduler)"],
    "simulated": ["OS threads -> cooperative fibers (ucontext) chosen by the seeded scheduler", "parallel executor -> SimExecutor (serial/reverse/permuted/partitioned onto fibers)",
                  "user time map / spatial map -> SimTimeMap / SimSpatialMap (yield points, liveness canaries)", "user cost functors -> generated smooth programs with recording and gradient-fault injection",
                  "pthread_mutex_lock/unlock/trylock -> cooperative mutex via -Wl,--wrap"],
    "not_exercised": ["OpenMPExecutor with a real OpenMP runtime", "builds with -ffast-math/-march=native", "allocation failure (Eigen frees before allocating: post-fault state undefined)"],
}

EXHAUSTIVE_PARTS = {
    "C12": {"thorough": "the first 153*400 runs of every variant enumerate all N! orders in which one thread can process the segments for N = 1..5 (153 permutations), each permutation on ~400 different random problems/configurations spread over the order/dimension/map universes (counter probes_hit.enumerated_permutation)"},
    "C09": {"thorough": "the first 2*256*6 runs of every variant enumerate all 256 flag sets x N = 1..6, once reached from a fresh optimizer and once by reconfiguring from a random other configuration; order, dimension and map universe are drawn per run, so each (flags, N) pair is seen in about one universe per pass"},
    "C07": {"thorough": "the first 4096 runs of every variant step through all 256 flag sets (16 passes)"},
    "C16": {"thorough": "the first 64*22 runs of every variant start with each of the 22 input-fault kinds (64 passes, random field positions)"},
}

ASSUMPTIONS = [
    "preemption happens only at yield points (callbacks, executor dispatch, lock operations); races between plain statements are covered by the TSan-fiber variant for C12 only",
    "bitwise oracles assume IEEE-conforming compilation (g++/clang -O1, no -ffast-math, -ffp-contract=off)",
    "evidence is sampled (seeded search), not exhaustive, except where coverage.exhaustive_parts says so",
    "third-party Eigen 3.4 and libstdc++ are trusted",
]


def sh(cmd, **kw):
    return subprocess.run(cmd, shell=isinstance(cmd, str), **kw)


def prune_caches(keep=3):
    root = os.path.join(BUILD_ROOT, "cache")
    try:
        dirs = sorted((os.path.join(root, d) for d in os.listdir(root)), key=os.path.getmtime, reverse=True)
    except OSError:
        return
    import shutil
    for d in dirs[keep:]:
        if os.path.abspath(d) != os.path.abspath(B):
            shutil.rmtree(d, ignore_errors=True)


def build(variants):
    t0 = time.time()
    os.makedirs(B, exist_ok=True)
    os.utime(B, None)
    prune_caches()
    r = sh(["make", "-C", ROOT, "-j16", f"REPO={REPO}", f"B={B}"] + sorted(variants), stdout=subprocess.PIPE, stderr=subprocess.STDOUT, text=True)
    if r.returncode != 0:
        sys.stdout.write(r.stdout[-6000:])
        print("check.py: build failed (the tree under /repo does not compile with the harness)")
        sys.exit(2)
    return time.time() - t0


def load_known():
    open_findings, fixed = [], []
    path = os.path.join(ROOT, "known_findings.txt")
    if os.path.exists(path):
        for line in open(path):
            line = line.strip()
            if not line or line.startswith("#"):
                continue
            if line.startswith("finding:"):
                d = dict(kv.split("=", 1) for kv in line[len("finding:"):].split() if "=" in kv)
                d["text"] = line
                open_findings.append(d)
            elif line.startswith("fixed:"):
                fixed.append(line)
    return open_findings, fixed


def matches_known(v, replay_text, findings):
    for f in findings:
        if f.get("property") != v["prop"]:
            continue
        if "class" in f and f["class"] != v["class"]:
            continue
        if "needs_op" in f and ("op " + f["needs_op"]) not in replay_text:
            continue
        return f
    return None


def run_batch(prop, variant, seed, runs, tier, tag, workers=16, extra=None, digests=None, first=0):
    out = os.path.join(B, f"sum_{prop}_{variant.replace('+', '_')}_{tag}.json")
    if os.path.exists(out):
        os.unlink(out)
    base = variant.split("+")[0]
    cmd = [os.path.join(B, f"stsim_{base}"), "run", "--prop", prop, "--seed", str(seed), "--runs", str(runs), "--workers", str(workers),
           "--tier", tier, "--out", out, "--replay-dir", os.path.join(ROOT, "replays"), "--first", str(first)]
    if base == "tsan":
        cmd += ["--max-violations", "1", "--min-budget", "150"]
    if "+isolate" in variant:
        cmd += ["--isolate"]
    if digests:
        cmd += ["--digests", digests]
    if extra:
        cmd += extra
    env = dict(os.environ)
    env.pop("STSIM_SELFTEST", None)
    r = sh(cmd, stdout=subprocess.PIPE, stderr=subprocess.PIPE, text=True, env=env)
    summary = None
    if os.path.exists(out):
        try:
            summary = json.load(open(out))
        except Exception as e:  # noqa
            summary = None
    return r, summary


def main():
    args = sys.argv[1:]
    if not args:
        print(__doc__)
        return 2
    if args[0] == "build":
        build_s = build({"plain", "asan", "tsan"})
        print(f"check.py: simulator built for header content {header_hash()} in {build_s:.0f}s -> {B}")
        return 0
    if args[0] == "replay":
        path = args[1]
        text = open(path).read()
        m = re.search(r"^expect (\S+)", text, re.M)
        cls = m.group(1) if m else ""
        variant = "plain"
        if "data_race" in cls:
            variant = "tsan"
        elif "sanitizer_abort" in cls or "signal" in cls:
            variant = "asan"
        if len(args) > 2 and args[2] in ("plain", "asan", "tsan"):
            variant = args[2]
        build({variant})
        env = dict(os.environ)
        if variant == "tsan":
            env["STSIM_SYMBOLIZE"] = "1"
            env["STSIM_TSAN_PRINT"] = "1"
            env["TSAN_OPTIONS"] = "symbolize=1:external_symbolizer_path=/usr/bin/llvm-symbolizer-14"
        r = sh([os.path.join(B, f"stsim_{variant}"), "replay", path, "-v"], env=env)
        code = r.returncode
        if code not in (0, 1, 2):
            # a sanitizer abort or a crash is a reproduced failure of the replayed plan
            m2 = re.search(r"^prop (\S+)", text, re.M)
            print(f"VIOLATION property={m2.group(1) if m2 else '?'} replay={path}")
            return 1
        return code

    prop = args[0]
    tier = os.environ.get("VERIF_TIER", "quick")
    if "--tier" in args:
        tier = args[args.index("--tier") + 1]
    if prop not in CFG:
        print(f"check.py: no check for {prop} (see MANIFEST.json not_applicable)")
        return 2
    seed = int(os.environ.get("VERIF_SEED", "20260927"))
    plan = CFG[prop][0 if tier == "quick" else 1]
    scale = float(os.environ.get("VERIF_SCALE", "1"))
    t_start = time.time()
    build_s = build(set(v.split("+")[0] for v in plan.keys()))
    findings, fixed = load_known()

    summaries, harness, candidates = {}, [], []
    for variant, runs in plan.items():
        runs = max(16, int(runs * scale))
        r, s = run_batch(prop, variant, seed, runs, tier, "main")
        if s is None:
            harness.append(f"{variant}: no summary written (exit {r.returncode}): {r.stderr[-800:]}")
            continue
        summaries[variant] = s
        for h in s.get("harness_errors", []):
            harness.append(f"{variant}: {h}")
        for v in s.get("violations", []):
            v = dict(v)
            v["variant"] = variant
            v["prop"] = prop
            candidates.append(v)
        if s["runs"] + len(s.get("violations", [])) < runs:
            harness.append(f"{variant}: only {s['runs']} of {runs} runs completed")

    # determinism sample: the same seeds, another worker count, in other processes -> identical event-log digests
    det = {"seeds_compared": 0, "mismatches": 0, "worker_counts": [16, 5]}
    if "plain" in summaries:
        n = min(1500 if tier == "quick" else 20000, summaries["plain"]["runs"])
        d1, d2 = os.path.join(B, f"dig_{prop}_a.txt"), os.path.join(B, f"dig_{prop}_b.txt")
        ra, sa = run_batch(prop, "plain", seed, n, tier, "detA", workers=16, digests=d1)
        rb, sb = run_batch(prop, "plain", seed, n, tier, "detB", workers=5, digests=d2)
        try:
            a = dict(l.split() for l in open(d1))
            b = dict(l.split() for l in open(d2))
            det["seeds_compared"] = len(a)
            det["mismatches"] = sum(1 for k in a if b.get(k) != a[k]) + abs(len(a) - len(b))
        except Exception as e:  # noqa
            det["mismatches"] = -1
        # the main batch covered the same seeds first: its digests for them must agree as well (third process set)
        if det["mismatches"] != 0 and not candidates:
            harness.append(f"determinism: {det['mismatches']} of {det['seeds_compared']} seeds gave different event logs with 16 and 5 workers")

    # classify candidates
    violations, known_hits = [], []
    for v in candidates:
        try:
            text = open(v["replay"]).read()
        except Exception:
            text = ""
        k = matches_known(v, text, findings)
        if not v.get("confirmed", False):
            continue  # not reproduced in a fresh process: reported by the runner as a harness error, never as a violation
        if k:
            known_hits.append((k, v))
        else:
            violations.append(v)

    wall = time.time() - t_start
    # ---- evidence ---------------------------------------------------------------------------------
    tot = lambda key: sum(s.get(key, 0) for s in summaries.values())
    counters = {}
    for variant, s in summaries.items():
        for k, val in s.get("counters", {}).items():
            counters[k] = counters.get(k, 0) + val
    faults = {k[6:]: v for k, v in counters.items() if k.startswith("fault.")}
    probes = {k[6:]: v for k, v in counters.items() if k.startswith("probe.")}
    ops = {k[4:]: v for k, v in counters.items() if k.startswith("ops.")}
    oracles = {k[7:]: v for k, v in counters.items() if k.startswith("oracle.")}
    margins = {k[7:]: v for k, v in counters.items() if k.startswith("margin.")}
    run_s = sum(s.get("wall_s", 0) for s in summaries.values())
    evaluations = tot("runs")
    ev = {
        "property_id": prop,
        "tier": tier,
        "seed": seed,
        "level": "exploration",
        "coverage": {
            "evaluations": int(evaluations),
            "distinct_nontrivial": int(tot("distinct_nontrivial")),
            "rule": "one evaluation = one simulated run: a generated plan (operations with attached faults) executed against the real library under the seeded scheduler. "
                    "Distinct = distinct digest of the complete event log (operations, scheduling decisions, every value an oracle compared). Non-trivial = the run fired at least one fault "
                    "(hint corruption, stale workspace, reconfiguration followed by a query, bad input, gradient fault, source destruction/mutation, cold start) or interleaved >= 2 fibers or used a non-serial "
                    "executor schedule; counted per variant and summed (the variants execute the same seeds, so the per-variant numbers are listed too).",
            "samples": (summaries.get("plain") or next(iter(summaries.values()), {})).get("samples", ["none"])[:6] or ["none"],
            "exhaustive": False,
            "exhaustive_parts": EXHAUSTIVE_PARTS.get(prop, {}).get(tier, "none in this tier"),
            "per_variant": {v: {"runs": s["runs"], "wall_s": round(s["wall_s"], 2), "distinct_event_logs": s["distinct_digests"], "distinct_nontrivial": s["distinct_nontrivial"],
                                "distinct_states": s["distinct_states"], "distinct_schedules": s["distinct_schedules"],
                                "distinct_interleaved_schedules": s["distinct_interleaved_schedules"], "scheduler_steps": s["steps"], "fiber_switches": s["switches"],
                                "oracle_checks": s["oracle_checks"], "by_universe": s["by_universe"], "worker_restarts": s["worker_restarts"]} for v, s in summaries.items()},
            "runs_per_hour": int(evaluations / run_s * 3600) if run_s > 0 else 0,
            "seeds_per_hour": int(evaluations / run_s * 3600) if run_s > 0 else 0,
            "simulated_time_steps": int(tot("steps")),
            "faults_fired": faults,
            "probes_hit": probes,
            "operations": ops,
            "oracle_applications": oracles,
            "tolerance_margins": margins,
            "determinism_check": det,
            "components": REAL_VS_STUB,
            "build_s": round(build_s, 1),
            "known_findings_matched": [k["text"] for k, _ in known_hits],
            "fixed_findings_on_record": fixed,
        },
        "assumptions": ASSUMPTIONS,
        "wall_s": round(wall, 2),
        "violations": len(violations),
    }
    os.makedirs(os.path.join(ROOT, "evidence"), exist_ok=True)
    if evaluations > 0:
        with open(os.path.join(ROOT, "evidence", f"{prop}.json"), "w") as f:
            json.dump(ev, f, indent=1)

    for k, v in known_hits:
        print(f"KNOWN-FINDING: property={prop} {k['text']} (seen: {v['class']} replay={v['replay']})")
    for v in violations[:12]:
        print(f"VIOLATION property={prop} replay={v['replay']}")
        print(f"  class={v['class']} variant={v['variant']} universe={v.get('universe')} seed={v.get('seed')} {v.get('msg', '')[:400]}")
    if len(violations) > 12:
        print(f"  ... and {len(violations) - 12} more reproduced violation(s); all replay files are under {os.path.join(ROOT, 'replays')}")
    for h in harness:
        print(f"HARNESS: {h}")
    print(f"check {prop} [{tier}]: {int(evaluations)} runs in {run_s:.1f}s (+{build_s:.0f}s build), {int(tot('distinct_nontrivial'))} distinct non-trivial, "
          f"{len(violations)} violation(s), {len(known_hits)} known, determinism {det['seeds_compared']} seeds / {det['mismatches']} mismatches")
    if violations:
        return 1
    if harness:
        return 2
    return 0


if __name__ == "__main__":
    sys.exit(main())
