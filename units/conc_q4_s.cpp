#include "../props/opt_gen.hpp"
using SP_q4_s = SplineTrajectory::QuinticSplineND<4>;
using TM_q4_s = env::SimTimeMap;
using SM_q4_s = env::SimSpatialMap<4>;
OPT_REGISTER_ONE(C12, P_C12, q4_s, SP_q4_s, TM_q4_s, SM_q4_s, true, 3)
OPT_REGISTER_ONE(C07, P_C07, q4_s, SP_q4_s, TM_q4_s, SM_q4_s, true, 1)
OPT_REGISTER_ONE(C08, P_C08, q4_s, SP_q4_s, TM_q4_s, SM_q4_s, true, 1)
OPT_REGISTER_ONE(C09, P_C09, q4_s, SP_q4_s, TM_q4_s, SM_q4_s, true, 1)
OPT_REGISTER_ONE(C10, P_C10, q4_s, SP_q4_s, TM_q4_s, SM_q4_s, true, 1)
OPT_REGISTER_ONE(C15, P_C15, q4_s, SP_q4_s, TM_q4_s, SM_q4_s, true, 3)
OPT_REGISTER_ONE(C16, P_C16, q4_s, SP_q4_s, TM_q4_s, SM_q4_s, true, 1)
OPT_REGISTER_ONE(C19, P_C19, q4_s, SP_q4_s, TM_q4_s, SM_q4_s, true, 1)
