#include "../props/opt_gen.hpp"
using SP_c1_s = SplineTrajectory::CubicSplineND<1>;
using TM_c1_s = env::SimTimeMap;
using SM_c1_s = env::SimSpatialMap<1>;
OPT_REGISTER_ONE(C12, P_C12, c1_s, SP_c1_s, TM_c1_s, SM_c1_s, true, 3)
OPT_REGISTER_ONE(C07, P_C07, c1_s, SP_c1_s, TM_c1_s, SM_c1_s, true, 1)
OPT_REGISTER_ONE(C08, P_C08, c1_s, SP_c1_s, TM_c1_s, SM_c1_s, true, 1)
OPT_REGISTER_ONE(C09, P_C09, c1_s, SP_c1_s, TM_c1_s, SM_c1_s, true, 1)
OPT_REGISTER_ONE(C10, P_C10, c1_s, SP_c1_s, TM_c1_s, SM_c1_s, true, 1)
OPT_REGISTER_ONE(C15, P_C15, c1_s, SP_c1_s, TM_c1_s, SM_c1_s, true, 3)
OPT_REGISTER_ONE(C16, P_C16, c1_s, SP_c1_s, TM_c1_s, SM_c1_s, true, 1)
OPT_REGISTER_ONE(C19, P_C19, c1_s, SP_c1_s, TM_c1_s, SM_c1_s, true, 1)
