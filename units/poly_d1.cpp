#include "../props/poly.hpp"
POLY_REGISTER(1, d1)
