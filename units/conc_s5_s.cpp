#include "../props/opt_gen.hpp"
using SP_s5_s = SplineTrajectory::SepticSplineND<5>;
using TM_s5_s = env::SimTimeMap;
using SM_s5_s = env::SimSpatialMap<5>;
OPT_REGISTER_ONE(C12, P_C12, s5_s, SP_s5_s, TM_s5_s, SM_s5_s, true, 3)
OPT_REGISTER_ONE(C07, P_C07, s5_s, SP_s5_s, TM_s5_s, SM_s5_s, true, 1)
OPT_REGISTER_ONE(C08, P_C08, s5_s, SP_s5_s, TM_s5_s, SM_s5_s, true, 1)
OPT_REGISTER_ONE(C09, P_C09, s5_s, SP_s5_s, TM_s5_s, SM_s5_s, true, 1)
OPT_REGISTER_ONE(C10, P_C10, s5_s, SP_s5_s, TM_s5_s, SM_s5_s, true, 1)
OPT_REGISTER_ONE(C15, P_C15, s5_s, SP_s5_s, TM_s5_s, SM_s5_s, true, 3)
OPT_REGISTER_ONE(C16, P_C16, s5_s, SP_s5_s, TM_s5_s, SM_s5_s, true, 1)
OPT_REGISTER_ONE(C19, P_C19, s5_s, SP_s5_s, TM_s5_s, SM_s5_s, true, 1)
