#include "../props/opt_gen.hpp"
using SP_s2_b = SplineTrajectory::SepticSplineND<2>;
using TM_s2_b = SplineTrajectory::QuadInvTimeMap;
using SM_s2_b = SplineTrajectory::IdentitySpatialMap<2>;
OPT_REGISTER_ONE(C12, P_C12, s2_b, SP_s2_b, TM_s2_b, SM_s2_b, false, 1)
OPT_REGISTER_ONE(C07, P_C07, s2_b, SP_s2_b, TM_s2_b, SM_s2_b, false, 1)
OPT_REGISTER_ONE(C08, P_C08, s2_b, SP_s2_b, TM_s2_b, SM_s2_b, false, 1)
OPT_REGISTER_ONE(C09, P_C09, s2_b, SP_s2_b, TM_s2_b, SM_s2_b, false, 1)
OPT_REGISTER_ONE(C10, P_C10, s2_b, SP_s2_b, TM_s2_b, SM_s2_b, false, 1)
OPT_REGISTER_ONE(C15, P_C15, s2_b, SP_s2_b, TM_s2_b, SM_s2_b, false, 1)
OPT_REGISTER_ONE(C16, P_C16, s2_b, SP_s2_b, TM_s2_b, SM_s2_b, false, 1)
OPT_REGISTER_ONE(C19, P_C19, s2_b, SP_s2_b, TM_s2_b, SM_s2_b, false, 1)
