#include "../props/opt_gen.hpp"
using SP_s2_s = SplineTrajectory::SepticSplineND<2>;
using TM_s2_s = env::SimTimeMap;
using SM_s2_s = env::SimSpatialMap<2>;
OPT_REGISTER_ONE(C12, P_C12, s2_s, SP_s2_s, TM_s2_s, SM_s2_s, true, 3)
OPT_REGISTER_ONE(C07, P_C07, s2_s, SP_s2_s, TM_s2_s, SM_s2_s, true, 1)
OPT_REGISTER_ONE(C08, P_C08, s2_s, SP_s2_s, TM_s2_s, SM_s2_s, true, 1)
OPT_REGISTER_ONE(C09, P_C09, s2_s, SP_s2_s, TM_s2_s, SM_s2_s, true, 1)
OPT_REGISTER_ONE(C10, P_C10, s2_s, SP_s2_s, TM_s2_s, SM_s2_s, true, 1)
OPT_REGISTER_ONE(C15, P_C15, s2_s, SP_s2_s, TM_s2_s, SM_s2_s, true, 3)
OPT_REGISTER_ONE(C16, P_C16, s2_s, SP_s2_s, TM_s2_s, SM_s2_s, true, 1)
OPT_REGISTER_ONE(C19, P_C19, s2_s, SP_s2_s, TM_s2_s, SM_s2_s, true, 1)
