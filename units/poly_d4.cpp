#include "../props/poly.hpp"
POLY_REGISTER(4, d4)
