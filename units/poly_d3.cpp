#include "../props/poly.hpp"
POLY_REGISTER(3, d3)
