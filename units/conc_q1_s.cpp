#include "../props/opt_gen.hpp"
using SP_q1_s = SplineTrajectory::QuinticSplineND<1>;
using TM_q1_s = env::SimTimeMap;
using SM_q1_s = env::SimSpatialMap<1>;
OPT_REGISTER_ONE(C12, P_C12, q1_s, SP_q1_s, TM_q1_s, SM_q1_s, true, 3)
OPT_REGISTER_ONE(C07, P_C07, q1_s, SP_q1_s, TM_q1_s, SM_q1_s, true, 1)
OPT_REGISTER_ONE(C08, P_C08, q1_s, SP_q1_s, TM_q1_s, SM_q1_s, true, 1)
OPT_REGISTER_ONE(C09, P_C09, q1_s, SP_q1_s, TM_q1_s, SM_q1_s, true, 1)
OPT_REGISTER_ONE(C10, P_C10, q1_s, SP_q1_s, TM_q1_s, SM_q1_s, true, 1)
OPT_REGISTER_ONE(C15, P_C15, q1_s, SP_q1_s, TM_q1_s, SM_q1_s, true, 3)
OPT_REGISTER_ONE(C16, P_C16, q1_s, SP_q1_s, TM_q1_s, SM_q1_s, true, 1)
OPT_REGISTER_ONE(C19, P_C19, q1_s, SP_q1_s, TM_q1_s, SM_q1_s, true, 1)
