#include "../props/opt_gen.hpp"
using SP_c3_s = SplineTrajectory::CubicSplineND<3>;
using TM_c3_s = env::SimTimeMap;
using SM_c3_s = env::SimSpatialMap<3>;
OPT_REGISTER_ONE(C12, P_C12, c3_s, SP_c3_s, TM_c3_s, SM_c3_s, true, 3)
OPT_REGISTER_ONE(C07, P_C07, c3_s, SP_c3_s, TM_c3_s, SM_c3_s, true, 1)
OPT_REGISTER_ONE(C08, P_C08, c3_s, SP_c3_s, TM_c3_s, SM_c3_s, true, 1)
OPT_REGISTER_ONE(C09, P_C09, c3_s, SP_c3_s, TM_c3_s, SM_c3_s, true, 1)
OPT_REGISTER_ONE(C10, P_C10, c3_s, SP_c3_s, TM_c3_s, SM_c3_s, true, 1)
OPT_REGISTER_ONE(C15, P_C15, c3_s, SP_c3_s, TM_c3_s, SM_c3_s, true, 3)
OPT_REGISTER_ONE(C16, P_C16, c3_s, SP_c3_s, TM_c3_s, SM_c3_s, true, 1)
OPT_REGISTER_ONE(C19, P_C19, c3_s, SP_c3_s, TM_c3_s, SM_c3_s, true, 1)
