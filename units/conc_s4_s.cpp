#include "../props/opt_gen.hpp"
using SP_s4_s = SplineTrajectory::SepticSplineND<4>;
using TM_s4_s = env::SimTimeMap;
using SM_s4_s = env::SimSpatialMap<4>;
OPT_REGISTER_ONE(C12, P_C12, s4_s, SP_s4_s, TM_s4_s, SM_s4_s, true, 3)
OPT_REGISTER_ONE(C07, P_C07, s4_s, SP_s4_s, TM_s4_s, SM_s4_s, true, 1)
OPT_REGISTER_ONE(C08, P_C08, s4_s, SP_s4_s, TM_s4_s, SM_s4_s, true, 1)
OPT_REGISTER_ONE(C09, P_C09, s4_s, SP_s4_s, TM_s4_s, SM_s4_s, true, 1)
OPT_REGISTER_ONE(C10, P_C10, s4_s, SP_s4_s, TM_s4_s, SM_s4_s, true, 1)
OPT_REGISTER_ONE(C15, P_C15, s4_s, SP_s4_s, TM_s4_s, SM_s4_s, true, 3)
OPT_REGISTER_ONE(C16, P_C16, s4_s, SP_s4_s, TM_s4_s, SM_s4_s, true, 1)
OPT_REGISTER_ONE(C19, P_C19, s4_s, SP_s4_s, TM_s4_s, SM_s4_s, true, 1)
