#include "../props/opt_gen.hpp"
using SP_q3_b = SplineTrajectory::QuinticSplineND<3>;
using TM_q3_b = SplineTrajectory::QuadInvTimeMap;
using SM_q3_b = SplineTrajectory::IdentitySpatialMap<3>;
OPT_REGISTER_ONE(C12, P_C12, q3_b, SP_q3_b, TM_q3_b, SM_q3_b, false, 1)
OPT_REGISTER_ONE(C07, P_C07, q3_b, SP_q3_b, TM_q3_b, SM_q3_b, false, 1)
OPT_REGISTER_ONE(C08, P_C08, q3_b, SP_q3_b, TM_q3_b, SM_q3_b, false, 1)
OPT_REGISTER_ONE(C09, P_C09, q3_b, SP_q3_b, TM_q3_b, SM_q3_b, false, 1)
OPT_REGISTER_ONE(C10, P_C10, q3_b, SP_q3_b, TM_q3_b, SM_q3_b, false, 1)
OPT_REGISTER_ONE(C15, P_C15, q3_b, SP_q3_b, TM_q3_b, SM_q3_b, false, 1)
OPT_REGISTER_ONE(C16, P_C16, q3_b, SP_q3_b, TM_q3_b, SM_q3_b, false, 1)
OPT_REGISTER_ONE(C19, P_C19, q3_b, SP_q3_b, TM_q3_b, SM_q3_b, false, 1)
