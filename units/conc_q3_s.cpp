#include "../props/opt_gen.hpp"
using SP_q3_s = SplineTrajectory::QuinticSplineND<3>;
using TM_q3_s = env::SimTimeMap;
using SM_q3_s = env::SimSpatialMap<3>;
OPT_REGISTER_ONE(C12, P_C12, q3_s, SP_q3_s, TM_q3_s, SM_q3_s, true, 3)
OPT_REGISTER_ONE(C07, P_C07, q3_s, SP_q3_s, TM_q3_s, SM_q3_s, true, 1)
OPT_REGISTER_ONE(C08, P_C08, q3_s, SP_q3_s, TM_q3_s, SM_q3_s, true, 1)
OPT_REGISTER_ONE(C09, P_C09, q3_s, SP_q3_s, TM_q3_s, SM_q3_s, true, 1)
OPT_REGISTER_ONE(C10, P_C10, q3_s, SP_q3_s, TM_q3_s, SM_q3_s, true, 1)
OPT_REGISTER_ONE(C15, P_C15, q3_s, SP_q3_s, TM_q3_s, SM_q3_s, true, 3)
OPT_REGISTER_ONE(C16, P_C16, q3_s, SP_q3_s, TM_q3_s, SM_q3_s, true, 1)
OPT_REGISTER_ONE(C19, P_C19, q3_s, SP_q3_s, TM_q3_s, SM_q3_s, true, 1)
