#include "../props/opt_gen.hpp"
using SP_s6_b = SplineTrajectory::SepticSplineND<6>;
using TM_s6_b = SplineTrajectory::QuadInvTimeMap;
using SM_s6_b = SplineTrajectory::IdentitySpatialMap<6>;
OPT_REGISTER_ONE(C12, P_C12, s6_b, SP_s6_b, TM_s6_b, SM_s6_b, false, 1)
OPT_REGISTER_ONE(C07, P_C07, s6_b, SP_s6_b, TM_s6_b, SM_s6_b, false, 1)
OPT_REGISTER_ONE(C08, P_C08, s6_b, SP_s6_b, TM_s6_b, SM_s6_b, false, 1)
OPT_REGISTER_ONE(C09, P_C09, s6_b, SP_s6_b, TM_s6_b, SM_s6_b, false, 1)
OPT_REGISTER_ONE(C10, P_C10, s6_b, SP_s6_b, TM_s6_b, SM_s6_b, false, 1)
OPT_REGISTER_ONE(C15, P_C15, s6_b, SP_s6_b, TM_s6_b, SM_s6_b, false, 1)
OPT_REGISTER_ONE(C16, P_C16, s6_b, SP_s6_b, TM_s6_b, SM_s6_b, false, 1)
OPT_REGISTER_ONE(C19, P_C19, s6_b, SP_s6_b, TM_s6_b, SM_s6_b, false, 1)
