#include "../props/opt_gen.hpp"
using SP_c2_s = SplineTrajectory::CubicSplineND<2>;
using TM_c2_s = env::SimTimeMap;
using SM_c2_s = env::SimSpatialMap<2>;
OPT_REGISTER_ONE(C12, P_C12, c2_s, SP_c2_s, TM_c2_s, SM_c2_s, true, 3)
OPT_REGISTER_ONE(C07, P_C07, c2_s, SP_c2_s, TM_c2_s, SM_c2_s, true, 1)
OPT_REGISTER_ONE(C08, P_C08, c2_s, SP_c2_s, TM_c2_s, SM_c2_s, true, 1)
OPT_REGISTER_ONE(C09, P_C09, c2_s, SP_c2_s, TM_c2_s, SM_c2_s, true, 1)
OPT_REGISTER_ONE(C10, P_C10, c2_s, SP_c2_s, TM_c2_s, SM_c2_s, true, 1)
OPT_REGISTER_ONE(C15, P_C15, c2_s, SP_c2_s, TM_c2_s, SM_c2_s, true, 3)
OPT_REGISTER_ONE(C16, P_C16, c2_s, SP_c2_s, TM_c2_s, SM_c2_s, true, 1)
OPT_REGISTER_ONE(C19, P_C19, c2_s, SP_c2_s, TM_c2_s, SM_c2_s, true, 1)
