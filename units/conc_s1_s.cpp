#include "../props/opt_gen.hpp"
using SP_s1_s = SplineTrajectory::SepticSplineND<1>;
using TM_s1_s = env::SimTimeMap;
using SM_s1_s = env::SimSpatialMap<1>;
OPT_REGISTER_ONE(C12, P_C12, s1_s, SP_s1_s, TM_s1_s, SM_s1_s, true, 3)
OPT_REGISTER_ONE(C07, P_C07, s1_s, SP_s1_s, TM_s1_s, SM_s1_s, true, 1)
OPT_REGISTER_ONE(C08, P_C08, s1_s, SP_s1_s, TM_s1_s, SM_s1_s, true, 1)
OPT_REGISTER_ONE(C09, P_C09, s1_s, SP_s1_s, TM_s1_s, SM_s1_s, true, 1)
OPT_REGISTER_ONE(C10, P_C10, s1_s, SP_s1_s, TM_s1_s, SM_s1_s, true, 1)
OPT_REGISTER_ONE(C15, P_C15, s1_s, SP_s1_s, TM_s1_s, SM_s1_s, true, 3)
OPT_REGISTER_ONE(C16, P_C16, s1_s, SP_s1_s, TM_s1_s, SM_s1_s, true, 1)
OPT_REGISTER_ONE(C19, P_C19, s1_s, SP_s1_s, TM_s1_s, SM_s1_s, true, 1)
