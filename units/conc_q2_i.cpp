#include "../props/opt_gen.hpp"
using SP_q2_i = SplineTrajectory::QuinticSplineND<2>;
using TM_q2_i = SplineTrajectory::IdentityTimeMap;
using SM_q2_i = SplineTrajectory::IdentitySpatialMap<2>;
OPT_REGISTER_ONE(C12, P_C12, q2_i, SP_q2_i, TM_q2_i, SM_q2_i, false, 1)
OPT_REGISTER_ONE(C07, P_C07, q2_i, SP_q2_i, TM_q2_i, SM_q2_i, false, 1)
OPT_REGISTER_ONE(C08, P_C08, q2_i, SP_q2_i, TM_q2_i, SM_q2_i, false, 1)
OPT_REGISTER_ONE(C09, P_C09, q2_i, SP_q2_i, TM_q2_i, SM_q2_i, false, 1)
OPT_REGISTER_ONE(C10, P_C10, q2_i, SP_q2_i, TM_q2_i, SM_q2_i, false, 1)
OPT_REGISTER_ONE(C15, P_C15, q2_i, SP_q2_i, TM_q2_i, SM_q2_i, false, 1)
OPT_REGISTER_ONE(C16, P_C16, q2_i, SP_q2_i, TM_q2_i, SM_q2_i, false, 1)
OPT_REGISTER_ONE(C19, P_C19, q2_i, SP_q2_i, TM_q2_i, SM_q2_i, false, 1)
