#include "../props/opt_gen.hpp"
using SP_c1_b = SplineTrajectory::CubicSplineND<1>;
using TM_c1_b = SplineTrajectory::QuadInvTimeMap;
using SM_c1_b = SplineTrajectory::IdentitySpatialMap<1>;
OPT_REGISTER_ONE(C12, P_C12, c1_b, SP_c1_b, TM_c1_b, SM_c1_b, false, 1)
OPT_REGISTER_ONE(C07, P_C07, c1_b, SP_c1_b, TM_c1_b, SM_c1_b, false, 1)
OPT_REGISTER_ONE(C08, P_C08, c1_b, SP_c1_b, TM_c1_b, SM_c1_b, false, 1)
OPT_REGISTER_ONE(C09, P_C09, c1_b, SP_c1_b, TM_c1_b, SM_c1_b, false, 1)
OPT_REGISTER_ONE(C10, P_C10, c1_b, SP_c1_b, TM_c1_b, SM_c1_b, false, 1)
OPT_REGISTER_ONE(C15, P_C15, c1_b, SP_c1_b, TM_c1_b, SM_c1_b, false, 1)
OPT_REGISTER_ONE(C16, P_C16, c1_b, SP_c1_b, TM_c1_b, SM_c1_b, false, 1)
OPT_REGISTER_ONE(C19, P_C19, c1_b, SP_c1_b, TM_c1_b, SM_c1_b, false, 1)
