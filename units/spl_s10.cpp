#include "../props/spline.hpp"
namespace {
using S = SplineTrajectory::SepticSplineND<10>;
sim::Plan g05(uint64_t s, uint64_t i, sim::Tier t) { return splw::gen_plan<S>(s, i, t, 0); }
sim::Plan g10(uint64_t s, uint64_t i, sim::Tier t) { return splw::gen_plan<S>(s, i, t, 1); }
sim::Plan g11(uint64_t s, uint64_t i, sim::Tier t) { return splw::gen_plan<S>(s, i, t, 2); }
sim::Plan g15(uint64_t s, uint64_t i, sim::Tier t) { return splw::gen_plan<S>(s, i, t, 3); }
sim::Register r05(sim::Workload{"C05", "spl_s10", g05, splw::exec_plan<S>, splw::kNames, splw::OP_N, false, 1});
sim::Register r10(sim::Workload{"C10", "spl_s10", g10, splw::exec_plan<S>, splw::kNames, splw::OP_N, false, 2});
sim::Register r11(sim::Workload{"C11", "spl_s10", g11, splw::exec_plan<S>, splw::kNames, splw::OP_N, false, 1});
sim::Register r15(sim::Workload{"C15", "spl_s10", g15, splw::exec_plan<S>, splw::kNames, splw::OP_N, false, 1});
}
