#include "../props/opt_gen.hpp"
using SP_q5_b = SplineTrajectory::QuinticSplineND<5>;
using TM_q5_b = SplineTrajectory::QuadInvTimeMap;
using SM_q5_b = SplineTrajectory::IdentitySpatialMap<5>;
OPT_REGISTER_ONE(C12, P_C12, q5_b, SP_q5_b, TM_q5_b, SM_q5_b, false, 1)
OPT_REGISTER_ONE(C07, P_C07, q5_b, SP_q5_b, TM_q5_b, SM_q5_b, false, 1)
OPT_REGISTER_ONE(C08, P_C08, q5_b, SP_q5_b, TM_q5_b, SM_q5_b, false, 1)
OPT_REGISTER_ONE(C09, P_C09, q5_b, SP_q5_b, TM_q5_b, SM_q5_b, false, 1)
OPT_REGISTER_ONE(C10, P_C10, q5_b, SP_q5_b, TM_q5_b, SM_q5_b, false, 1)
OPT_REGISTER_ONE(C15, P_C15, q5_b, SP_q5_b, TM_q5_b, SM_q5_b, false, 1)
OPT_REGISTER_ONE(C16, P_C16, q5_b, SP_q5_b, TM_q5_b, SM_q5_b, false, 1)
OPT_REGISTER_ONE(C19, P_C19, q5_b, SP_q5_b, TM_q5_b, SM_q5_b, false, 1)
