#include "../props/opt_gen.hpp"
using SP_q4_b = SplineTrajectory::QuinticSplineND<4>;
using TM_q4_b = SplineTrajectory::QuadInvTimeMap;
using SM_q4_b = SplineTrajectory::IdentitySpatialMap<4>;
OPT_REGISTER_ONE(C12, P_C12, q4_b, SP_q4_b, TM_q4_b, SM_q4_b, false, 1)
OPT_REGISTER_ONE(C07, P_C07, q4_b, SP_q4_b, TM_q4_b, SM_q4_b, false, 1)
OPT_REGISTER_ONE(C08, P_C08, q4_b, SP_q4_b, TM_q4_b, SM_q4_b, false, 1)
OPT_REGISTER_ONE(C09, P_C09, q4_b, SP_q4_b, TM_q4_b, SM_q4_b, false, 1)
OPT_REGISTER_ONE(C10, P_C10, q4_b, SP_q4_b, TM_q4_b, SM_q4_b, false, 1)
OPT_REGISTER_ONE(C15, P_C15, q4_b, SP_q4_b, TM_q4_b, SM_q4_b, false, 1)
OPT_REGISTER_ONE(C16, P_C16, q4_b, SP_q4_b, TM_q4_b, SM_q4_b, false, 1)
OPT_REGISTER_ONE(C19, P_C19, q4_b, SP_q4_b, TM_q4_b, SM_q4_b, false, 1)
