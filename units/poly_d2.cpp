#include "../props/poly.hpp"
POLY_REGISTER(2, d2)
