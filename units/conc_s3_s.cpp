#include "../props/opt_gen.hpp"
using SP_s3_s = SplineTrajectory::SepticSplineND<3>;
using TM_s3_s = env::SimTimeMap;
using SM_s3_s = env::SimSpatialMap<3>;
OPT_REGISTER_ONE(C12, P_C12, s3_s, SP_s3_s, TM_s3_s, SM_s3_s, true, 3)
OPT_REGISTER_ONE(C07, P_C07, s3_s, SP_s3_s, TM_s3_s, SM_s3_s, true, 1)
OPT_REGISTER_ONE(C08, P_C08, s3_s, SP_s3_s, TM_s3_s, SM_s3_s, true, 1)
OPT_REGISTER_ONE(C09, P_C09, s3_s, SP_s3_s, TM_s3_s, SM_s3_s, true, 1)
OPT_REGISTER_ONE(C10, P_C10, s3_s, SP_s3_s, TM_s3_s, SM_s3_s, true, 1)
OPT_REGISTER_ONE(C15, P_C15, s3_s, SP_s3_s, TM_s3_s, SM_s3_s, true, 3)
OPT_REGISTER_ONE(C16, P_C16, s3_s, SP_s3_s, TM_s3_s, SM_s3_s, true, 1)
OPT_REGISTER_ONE(C19, P_C19, s3_s, SP_s3_s, TM_s3_s, SM_s3_s, true, 1)
