#include "../props/opt_gen.hpp"
using SP_c5_b = SplineTrajectory::CubicSplineND<5>;
using TM_c5_b = SplineTrajectory::QuadInvTimeMap;
using SM_c5_b = SplineTrajectory::IdentitySpatialMap<5>;
OPT_REGISTER_ONE(C12, P_C12, c5_b, SP_c5_b, TM_c5_b, SM_c5_b, false, 1)
OPT_REGISTER_ONE(C07, P_C07, c5_b, SP_c5_b, TM_c5_b, SM_c5_b, false, 1)
OPT_REGISTER_ONE(C08, P_C08, c5_b, SP_c5_b, TM_c5_b, SM_c5_b, false, 1)
OPT_REGISTER_ONE(C09, P_C09, c5_b, SP_c5_b, TM_c5_b, SM_c5_b, false, 1)
OPT_REGISTER_ONE(C10, P_C10, c5_b, SP_c5_b, TM_c5_b, SM_c5_b, false, 1)
OPT_REGISTER_ONE(C15, P_C15, c5_b, SP_c5_b, TM_c5_b, SM_c5_b, false, 1)
OPT_REGISTER_ONE(C16, P_C16, c5_b, SP_c5_b, TM_c5_b, SM_c5_b, false, 1)
OPT_REGISTER_ONE(C19, P_C19, c5_b, SP_c5_b, TM_c5_b, SM_c5_b, false, 1)
