#include "../props/opt_gen.hpp"
using SP_c4_b = SplineTrajectory::CubicSplineND<4>;
using TM_c4_b = SplineTrajectory::QuadInvTimeMap;
using SM_c4_b = SplineTrajectory::IdentitySpatialMap<4>;
OPT_REGISTER_ONE(C12, P_C12, c4_b, SP_c4_b, TM_c4_b, SM_c4_b, false, 1)
OPT_REGISTER_ONE(C07, P_C07, c4_b, SP_c4_b, TM_c4_b, SM_c4_b, false, 1)
OPT_REGISTER_ONE(C08, P_C08, c4_b, SP_c4_b, TM_c4_b, SM_c4_b, false, 1)
OPT_REGISTER_ONE(C09, P_C09, c4_b, SP_c4_b, TM_c4_b, SM_c4_b, false, 1)
OPT_REGISTER_ONE(C10, P_C10, c4_b, SP_c4_b, TM_c4_b, SM_c4_b, false, 1)
OPT_REGISTER_ONE(C15, P_C15, c4_b, SP_c4_b, TM_c4_b, SM_c4_b, false, 1)
OPT_REGISTER_ONE(C16, P_C16, c4_b, SP_c4_b, TM_c4_b, SM_c4_b, false, 1)
OPT_REGISTER_ONE(C19, P_C19, c4_b, SP_c4_b, TM_c4_b, SM_c4_b, false, 1)
