#include "../props/opt_gen.hpp"
using SP_c3_b = SplineTrajectory::CubicSplineND<3>;
using TM_c3_b = SplineTrajectory::QuadInvTimeMap;
using SM_c3_b = SplineTrajectory::IdentitySpatialMap<3>;
OPT_REGISTER_ONE(C12, P_C12, c3_b, SP_c3_b, TM_c3_b, SM_c3_b, false, 1)
OPT_REGISTER_ONE(C07, P_C07, c3_b, SP_c3_b, TM_c3_b, SM_c3_b, false, 1)
OPT_REGISTER_ONE(C08, P_C08, c3_b, SP_c3_b, TM_c3_b, SM_c3_b, false, 1)
OPT_REGISTER_ONE(C09, P_C09, c3_b, SP_c3_b, TM_c3_b, SM_c3_b, false, 1)
OPT_REGISTER_ONE(C10, P_C10, c3_b, SP_c3_b, TM_c3_b, SM_c3_b, false, 1)
OPT_REGISTER_ONE(C15, P_C15, c3_b, SP_c3_b, TM_c3_b, SM_c3_b, false, 1)
OPT_REGISTER_ONE(C16, P_C16, c3_b, SP_c3_b, TM_c3_b, SM_c3_b, false, 1)
OPT_REGISTER_ONE(C19, P_C19, c3_b, SP_c3_b, TM_c3_b, SM_c3_b, false, 1)
