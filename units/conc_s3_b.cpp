#include "../props/opt_gen.hpp"
using SP_s3_b = SplineTrajectory::SepticSplineND<3>;
using TM_s3_b = SplineTrajectory::QuadInvTimeMap;
using SM_s3_b = SplineTrajectory::IdentitySpatialMap<3>;
OPT_REGISTER_ONE(C12, P_C12, s3_b, SP_s3_b, TM_s3_b, SM_s3_b, false, 1)
OPT_REGISTER_ONE(C07, P_C07, s3_b, SP_s3_b, TM_s3_b, SM_s3_b, false, 1)
OPT_REGISTER_ONE(C08, P_C08, s3_b, SP_s3_b, TM_s3_b, SM_s3_b, false, 1)
OPT_REGISTER_ONE(C09, P_C09, s3_b, SP_s3_b, TM_s3_b, SM_s3_b, false, 1)
OPT_REGISTER_ONE(C10, P_C10, s3_b, SP_s3_b, TM_s3_b, SM_s3_b, false, 1)
OPT_REGISTER_ONE(C15, P_C15, s3_b, SP_s3_b, TM_s3_b, SM_s3_b, false, 1)
OPT_REGISTER_ONE(C16, P_C16, s3_b, SP_s3_b, TM_s3_b, SM_s3_b, false, 1)
OPT_REGISTER_ONE(C19, P_C19, s3_b, SP_s3_b, TM_s3_b, SM_s3_b, false, 1)
