#include "../props/opt_gen.hpp"
using SP_c2_i = SplineTrajectory::CubicSplineND<2>;
using TM_c2_i = SplineTrajectory::IdentityTimeMap;
using SM_c2_i = SplineTrajectory::IdentitySpatialMap<2>;
OPT_REGISTER_ONE(C12, P_C12, c2_i, SP_c2_i, TM_c2_i, SM_c2_i, false, 1)
OPT_REGISTER_ONE(C07, P_C07, c2_i, SP_c2_i, TM_c2_i, SM_c2_i, false, 1)
OPT_REGISTER_ONE(C08, P_C08, c2_i, SP_c2_i, TM_c2_i, SM_c2_i, false, 1)
OPT_REGISTER_ONE(C09, P_C09, c2_i, SP_c2_i, TM_c2_i, SM_c2_i, false, 1)
OPT_REGISTER_ONE(C10, P_C10, c2_i, SP_c2_i, TM_c2_i, SM_c2_i, false, 1)
OPT_REGISTER_ONE(C15, P_C15, c2_i, SP_c2_i, TM_c2_i, SM_c2_i, false, 1)
OPT_REGISTER_ONE(C16, P_C16, c2_i, SP_c2_i, TM_c2_i, SM_c2_i, false, 1)
OPT_REGISTER_ONE(C19, P_C19, c2_i, SP_c2_i, TM_c2_i, SM_c2_i, false, 1)
