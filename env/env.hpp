// The simulated environment of a SplineOptimizer: everything the library calls
// but does not own.  Executor (schedules the per-segment loop), time map,
// spatial map and the three cost functors.  All of them are yield points of the
// cooperative scheduler, all are deterministic functions of generated
// parameters, and all can record what the library handed them.
#pragma once
#include "../props/common.hpp"
#include <functional>

namespace env
{
using namespace simx;

// ---------------------------------------------------------------- hooks ----
struct Hooks
{
    bool yield_in_maps = false;
    bool yield_in_costs = false;
    bool yield_in_executor = true;
    uint64_t map_calls = 0, cost_calls = 0;
    // parameters handed to default-constructed simulated maps (the optimizer's own default maps)
    double next_time_param = 1.0;
    int next_time_kind = 0;
    double next_spatial_param = 1.0;
    int next_spatial_kind = 0;
    int next_id = 1;
    // injected cancellation from inside a map: the abort_map_call-th map call (counted from arming) throws
    bool abort_map_armed = false;
    long abort_map_call = 0;
    long abort_map_seen = 0;
    bool abort_map_fired = false;
    // arguments the library handed to SimTimeMap::backward (tau, T), recorded when asked for
    bool record_backward = false;
    std::vector<std::pair<double, double>> backward_args;
};
inline Hooks &hooks()
{
    static Hooks h;
    return h;
}

inline void map_yield(const char *tag)
{
    Hooks &h = hooks();
    bool fire = false;
    {
        NoRace g;
        ++h.map_calls;
        if (h.abort_map_armed && h.abort_map_seen++ == h.abort_map_call)
        {
            fire = true;
            h.abort_map_armed = false;
            h.abort_map_fired = true;
        }
    }
    if (fire) throw InjectedAbort();
    if (h.yield_in_maps) yield_point(tag);
}
inline void cost_yield(const char *tag)
{
    Hooks &h = hooks();
    { NoRace g; ++h.cost_calls; }
    if (h.yield_in_costs) yield_point(tag);
}

static const uint32_t kAlive = 0xA11CE5ED, kDead = 0xDEADDEAD;

// ------------------------------------------------------------- time map ----
struct SimTimeMap
{
    int kind;      // 0: a*exp(tau)   1: a*softplus(tau)   2: a*tau (tau>0)
    double a;
    int id;
    uint32_t canary;

    SimTimeMap() : kind(hooks().next_time_kind), a(hooks().next_time_param), id(hooks().next_id++), canary(kAlive) {}
    SimTimeMap(int k, double a_) : kind(k), a(a_), id(hooks().next_id++), canary(kAlive) {}
    SimTimeMap(const SimTimeMap &o) : kind(o.kind), a(o.a), id(hooks().next_id++), canary(kAlive) { o.check(); }
    SimTimeMap &operator=(const SimTimeMap &o)
    {
        o.check();
        check();
        kind = o.kind;
        a = o.a;
        return *this;
    }
    ~SimTimeMap() { canary = kDead; }
    void check() const
    {
        if (canary != kAlive) throw DeadMap();
    }
    double toTime(double tau) const
    {
        check();
        map_yield("toTime");
        switch (kind)
        {
        case 0: return a * std::exp(tau);
        case 1: return a * (tau > 30 ? tau : std::log1p(std::exp(tau)));
        case 3: return 0.5 * a + tau * tau; // a map with a restricted range: durations below a/2 have no pre-image
        default: return a * tau;
        }
    }
    double toTau(double T) const
    {
        check();
        map_yield("toTau");
        switch (kind)
        {
        case 0: return std::log(T / a);
        case 1: { double y = T / a; return y > 30 ? y : std::log(std::expm1(y)); }
        case 3: return std::sqrt(T - 0.5 * a); // NaN below the range
        default: return T / a;
        }
    }
    double backward(double tau, double T, double gradT) const
    {
        check();
        map_yield("backward");
        if (hooks().record_backward) { NoRace g; hooks().backward_args.push_back({tau, T}); }
        switch (kind)
        {
        case 3: return gradT * 2.0 * tau;
        case 0: return gradT * T; // dT/dtau = T for the exponential map: uses the duration the library passes in
        case 1: return gradT * a * (1.0 / (1.0 + std::exp(-tau)));
        default: return gradT * a;
        }
    }
    // derivative dT/dtau (for step-size selection by the harness; not called by the library)
    double slope(double tau) const
    {
        switch (kind)
        {
        case 0: return a * std::exp(tau);
        case 1: return a / (1.0 + std::exp(-tau));
        case 3: return 2.0 * tau;
        default: return a;
        }
    }
};

// ---------------------------------------------------------- spatial map ----
template <int DIM>
struct SimSpatialMap
{
    using Vec = Eigen::Matrix<double, DIM, 1>;
    int kind;     // 0 affine (dof DIM), 1 redundant (dof DIM+1), 2 manifold (dof DIM-1), 3 monotone nonlinear (dof DIM), 4 mixed by index
    double s;
    int id;
    uint32_t canary;

    SimSpatialMap() : kind(hooks().next_spatial_kind), s(hooks().next_spatial_param), id(hooks().next_id++), canary(kAlive) {}
    SimSpatialMap(int k, double s_) : kind(k), s(s_), id(hooks().next_id++), canary(kAlive) {}
    SimSpatialMap(const SimSpatialMap &o) : kind(o.kind), s(o.s), id(hooks().next_id++), canary(kAlive) { o.check(); }
    SimSpatialMap &operator=(const SimSpatialMap &o)
    {
        o.check();
        check();
        kind = o.kind;
        s = o.s;
        return *this;
    }
    ~SimSpatialMap() { canary = kDead; }
    void check() const
    {
        if (canary != kAlive) throw DeadMap();
    }
    int kind_at(int index) const
    {
        int k = kind == 4 ? ((index % 4) + 4) % 4 : kind;
        if (k == 2 && DIM == 1) k = 0;
        return k;
    }
    double sc(int index, int d) const { return s * (1.0 + 0.125 * ((index + d) % 3)); }
    double sh(int index, int d) const { return 0.0625 * index - 0.03125 * d; }

    int getUnconstrainedDim(int index) const
    {
        check();
        map_yield("getUnconstrainedDim");
        switch (kind_at(index))
        {
        case 1: return DIM + 1;
        case 2: return DIM - 1;
        default: return DIM;
        }
    }
    Vec toPhysical(const Eigen::VectorXd &xi, int index) const
    {
        check();
        map_yield("toPhysical");
        Vec p;
        switch (kind_at(index))
        {
        case 0:
            for (int d = 0; d < DIM; ++d) p(d) = sc(index, d) * xi(d) + sh(index, d);
            break;
        case 1:
            for (int d = 0; d < DIM; ++d) p(d) = xi(d) + (0.25 / (d + 1)) * xi(DIM);
            break;
        case 2:
        {
            double acc = 0.0;
            for (int d = 0; d < DIM - 1; ++d) { p(d) = xi(d); acc += std::sin(xi(d)); }
            p(DIM - 1) = 0.125 * index + 0.25 * acc;
            break;
        }
        default:
            for (int d = 0; d < DIM; ++d) p(d) = xi(d) + 0.25 * std::sin(xi(d));
            break;
        }
        return p;
    }
    Eigen::VectorXd toUnconstrained(const Eigen::VectorXd &p, int index) const
    {
        check();
        map_yield("toUnconstrained");
        switch (kind_at(index))
        {
        case 0:
        {
            Eigen::VectorXd xi(DIM);
            for (int d = 0; d < DIM; ++d) xi(d) = (p(d) - sh(index, d)) / sc(index, d);
            return xi;
        }
        case 1:
        {
            Eigen::VectorXd xi(DIM + 1);
            for (int d = 0; d < DIM; ++d) xi(d) = p(d);
            xi(DIM) = 0.0;
            return xi;
        }
        case 2:
        {
            Eigen::VectorXd xi(DIM - 1);
            for (int d = 0; d < DIM - 1; ++d) xi(d) = p(d);
            return xi;
        }
        default:
        {
            Eigen::VectorXd xi(DIM);
            for (int d = 0; d < DIM; ++d)
            {
                double x = p(d);
                for (int it = 0; it < 60; ++it)
                {
                    double f = x + 0.25 * std::sin(x) - p(d);
                    double nx = x - f / (1.0 + 0.25 * std::cos(x));
                    if (nx == x) break;
                    x = nx;
                }
                xi(d) = x;
            }
            return xi;
        }
        }
    }
    Eigen::VectorXd backwardGrad(const Eigen::VectorXd &xi, const Eigen::VectorXd &gp, int index) const
    {
        check();
        map_yield("backwardGrad");
        switch (kind_at(index))
        {
        case 0:
        {
            Eigen::VectorXd g(DIM);
            for (int d = 0; d < DIM; ++d) g(d) = sc(index, d) * gp(d);
            return g;
        }
        case 1:
        {
            Eigen::VectorXd g(DIM + 1);
            double acc = 0.0;
            for (int d = 0; d < DIM; ++d) { g(d) = gp(d); acc += (0.25 / (d + 1)) * gp(d); }
            g(DIM) = acc;
            return g;
        }
        case 2:
        {
            Eigen::VectorXd g(DIM - 1);
            for (int d = 0; d < DIM - 1; ++d) g(d) = gp(d) + gp(DIM - 1) * 0.25 * std::cos(xi(d));
            return g;
        }
        default:
        {
            Eigen::VectorXd g(DIM);
            for (int d = 0; d < DIM; ++d) g(d) = gp(d) * (1.0 + 0.25 * std::cos(xi(d)));
            return g;
        }
        }
    }
    // put a physical point onto the image of the map (only kind 2 has a proper sub-manifold)
    Vec project(const Vec &p, int index) const
    {
        if (kind_at(index) != 2) return p;
        Vec q = p;
        double acc = 0.0;
        for (int d = 0; d < DIM - 1; ++d) acc += std::sin(q(d));
        q(DIM - 1) = 0.125 * index + 0.25 * acc;
        return q;
    }
    bool roundtrip_exact(int index) const { int k = kind_at(index); return k == 1 || k == 2; }
};

// ------------------------------------------------------------ cost side ----
template <int DIM>
struct Sample
{
    using Vec = Eigen::Matrix<double, DIM, 1>;
    double t, tg;
    int seg;
    Vec p, v, a, j, s;
    double c;
};

template <int DIM>
struct Trace
{
    std::vector<std::vector<double>> time_args;   // argument of every time-cost call
    std::vector<Eigen::MatrixXd> wp_args;          // argument of every waypoint-cost call
    std::vector<std::vector<Sample<DIM>>> per_seg; // running-cost samples per segment index (arrival order)
    std::vector<int> other_seg;                    // samples carrying an index outside [0, N)
    std::vector<int> arrival;                      // order in which segments delivered their first sample
    double time_cost = 0, wp_cost = 0;
    void reset(int N)
    {
        time_args.clear();
        wp_args.clear();
        per_seg.assign(N, {});
        other_seg.clear();
        arrival.clear();
        time_cost = wp_cost = 0;
    }
};

// one perturbed gradient slot in one functor (C19)
struct GradFault
{
    int functor = 0; // 0 none, 1 time, 2 waypoint, 3 running
    int slot = 0;    // time: segment i; waypoint: row; running: 0..4 = gp,gv,ga,gj,gs, 5 = gt
    int comp = 0;    // component within the slot
    double delta = 0.0;
};

// Parameters of the generated user costs ("programs").  Smooth, O(1) coefficients,
// explicit time dependence only through global time.
template <int DIM>
struct CostProgram
{
    using Vec = Eigen::Matrix<double, DIM, 1>;
    // time cost: sum_i tw_i T_i + 0.5 tq sum T_i^2 + tc (sum T)^2
    std::vector<double> tw;
    double tq = 0, tc = 0;
    bool time_accumulate = false; // grad(i) += ... instead of =
    // waypoint cost: 0.5 ww sum_i m_i |q_i - c_i|^2 + wk sum_i q_i . q_{i+1}
    double ww = 0, wk = 0;
    std::vector<double> wm;
    std::vector<Vec> wc;
    // running cost
    double wp = 0, wv = 0, wa = 0, wj = 0, ws = 0, wpv = 0, wva = 0;
    double A = 0, omega = 0, phi = 0, B = 0;
    Vec e, p0;
    std::vector<double> segw;
    uint32_t uses = 0; // bit mask of arguments the running cost depends on (p,v,a,j,s,t_global,i)
    // style 0: the smooth family above.  1: purely linear in one position coordinate (value exactly 0 where that
    // coordinate is 0, gradient not).  2: as 0 plus a hard barrier (+inf on a time-dependent subset of samples).
    // 3: one-sided penalty that returns early WITHOUT touching its outputs when inactive (the library zeroes them).
    int style = 0;
    double hinge_thr = 0, hinge_w = 0;

    static CostProgram make(uint64_t seed, int nmax, int order, bool small_gradients, int style = 0)
    {
        Rng r(seed, 0xc057);
        CostProgram c;
        c.style = style;
        c.hinge_thr = r.real(0.5, 20.0);
        c.hinge_w = r.logreal(1e-9, 1e-6);
        c.tw.resize(nmax);
        c.segw.resize(nmax);
        c.wm.resize(nmax + 1);
        c.wc.resize(nmax + 1);
        for (int i = 0; i < nmax; ++i) { c.tw[i] = r.real(0.2, 2.0); c.segw[i] = r.chance(0.5) ? 1.0 : r.real(0.5, 2.0); }
        for (int i = 0; i <= nmax; ++i)
        {
            c.wm[i] = r.real(0.5, 1.5);
            for (int d = 0; d < DIM; ++d) c.wc[i](d) = r.real(-3.0, 3.0);
        }
        c.tq = r.chance(0.6) ? r.real(0.1, 1.0) : 0.0;
        c.tc = r.chance(0.5) ? r.real(0.05, 0.5) : 0.0;
        c.time_accumulate = r.chance(0.5);
        c.ww = r.chance(0.8) ? r.real(0.2, 2.0) : 0.0;
        c.wk = r.chance(0.5) ? r.real(-0.3, 0.3) : 0.0;
        // the derivative weights shrink with the derivative order so that no single term drowns the others
        double sv = small_gradients ? 1e-2 : 1e-1, sa = small_gradients ? 1e-4 : 1e-2, sj = small_gradients ? 1e-6 : 1e-3,
               ss = small_gradients ? 1e-8 : 1e-4;
        uint32_t m = (uint32_t)r.below(128);
        if (r.chance(0.3)) m = 127;
        if (m == 0) m = 1;
        c.uses = m;
        c.wp = (m & 1) ? r.real(0.3, 1.5) : 0.0;
        c.wv = (m & 2) ? sv * r.real(0.3, 1.5) : 0.0;
        c.wa = (m & 4) ? sa * r.real(0.3, 1.5) : 0.0;
        c.wj = (m & 8) ? sj * r.real(0.3, 1.5) : 0.0;
        c.ws = (m & 16) ? ss * r.real(0.3, 1.5) : 0.0;
        c.wpv = ((m & 3) == 3) ? sv * r.real(-0.5, 0.5) : 0.0;
        c.wva = ((m & 6) == 6) ? sa * r.real(-0.5, 0.5) : 0.0;
        if (m & 32) { c.A = r.real(0.2, 1.0); c.omega = r.real(0.3, 2.0); c.phi = r.real(0, 6.28); c.B = r.real(0.05, 0.3); }
        if (!(m & 64)) for (auto &w : c.segw) w = 1.0;
        for (int d = 0; d < DIM; ++d) { c.e(d) = r.real(-1.0, 1.0); c.p0(d) = r.real(-2.0, 2.0); }
        (void)order;
        return c;
    }
};

template <int DIM>
struct CallCtx
{
    const CostProgram<DIM> *prog = nullptr;
    Trace<DIM> *trace = nullptr; // record when non-null
    GradFault fault;
    int nseg = 0;
    // injected cancellation: the abort_call-th call (0-based) of functor abort_functor (1 time, 2 waypoint, 3 running) throws
    int abort_functor = 0;
    long abort_call = 0;
    long calls_seen = 0;
    bool aborted = false;
    uint64_t abort_seg_mask = 0; // running cost fails on every sample of these segments (condition-based failure)
    // re-entrancy: at the reenter_call-th running-cost call the functor itself uses the library (another optimizer of the
    // same type, its own workspace) before it returns - a multi-agent cost
    std::function<void()> reenter;
    long reenter_call = -1;
    long rc_calls = 0;
    void maybe_abort(int functor)
    {
        if (abort_functor != functor) return;
        bool fire;
        {
            NoRace g;
            fire = (calls_seen++ == abort_call);
            if (fire) aborted = true;
        }
        if (fire) throw InjectedAbort();
    }
};

template <int DIM>
struct SimTimeCost
{
    CallCtx<DIM> *cc;
    double operator()(const std::vector<double> &Ts, Eigen::VectorXd &grad) const
    {
        cost_yield("time_cost");
        cc->maybe_abort(1);
        const CostProgram<DIM> &P = *cc->prog;
        double sum = 0.0, cost = 0.0;
        for (size_t i = 0; i < Ts.size(); ++i) sum += Ts[i];
        for (size_t i = 0; i < Ts.size(); ++i)
        {
            cost += P.tw[i] * Ts[i] + 0.5 * P.tq * Ts[i] * Ts[i];
            double g = P.tw[i] + P.tq * Ts[i] + 2.0 * P.tc * sum;
            if (cc->fault.functor == 1 && cc->fault.slot == (int)i) g += cc->fault.delta;
            if (cc->fault.functor == 4) continue; // the faulty functor computes its cost but never writes a gradient
            if (P.time_accumulate) grad((Eigen::Index)i) += g;
            else grad((Eigen::Index)i) = g;
        }
        cost += P.tc * sum * sum;
        if (cc->trace) { NoRace g; cc->trace->time_args.push_back(Ts); cc->trace->time_cost = cost; }
        return cost;
    }
};

template <int DIM>
struct SimWaypointCost
{
    CallCtx<DIM> *cc;
    template <class W, class G>
    double operator()(const W &q, G &grad) const
    {
        cost_yield("waypoint_cost");
        cc->maybe_abort(2);
        const CostProgram<DIM> &P = *cc->prog;
        const int n = (int)q.rows();
        double cost = 0.0;
        for (int i = 0; i < n; ++i)
        {
            for (int d = 0; d < DIM; ++d)
            {
                double diff = q(i, d) - P.wc[i](d);
                cost += 0.5 * P.ww * P.wm[i] * diff * diff;
                grad(i, d) += P.ww * P.wm[i] * diff;
            }
            if (i + 1 < n)
                for (int d = 0; d < DIM; ++d)
                {
                    cost += P.wk * q(i, d) * q(i + 1, d);
                    grad(i, d) += P.wk * q(i + 1, d);
                    grad(i + 1, d) += P.wk * q(i, d);
                }
        }
        if (cc->fault.functor == 2 && cc->fault.slot < n) grad(cc->fault.slot, cc->fault.comp % DIM) += cc->fault.delta;
        if (cc->trace) { NoRace g; cc->trace->wp_args.push_back(Eigen::MatrixXd(q)); cc->trace->wp_cost = cost; }
        return cost;
    }
};

template <int DIM>
struct SimRunningCost
{
    using Vec = Eigen::Matrix<double, DIM, 1>;
    CallCtx<DIM> *cc;
    double operator()(double t, double tg, int i, const Vec &p, const Vec &v, const Vec &a, const Vec &j, const Vec &s,
                      Vec &gp, Vec &gv, Vec &ga, Vec &gj, Vec &gs, double &gt) const
    {
        cost_yield("running_cost");
        cc->maybe_abort(3);
        if (cc->abort_seg_mask && i >= 0 && i < 62 && ((cc->abort_seg_mask >> i) & 1))
        {
            { NoRace g; cc->aborted = true; }
            throw InjectedAbort(); // a condition-based failure: every sample of these segments fails
        }
        const CostProgram<DIM> &P = *cc->prog;
        if (cc->reenter)
        {
            bool go;
            { NoRace g; go = (cc->rc_calls++ == cc->reenter_call); }
            if (go) cc->reenter();
        }
        if (P.style == 4) return 0.0; // no running cost at all (a single functor checked in isolation)
        if (P.style == 1)
        {
            // linear in one coordinate: exactly zero where that coordinate is zero, with a non-zero gradient
            double c1 = 1.5 * p(0);
            gp(0) = 1.5;
            if (cc->trace) record(t, tg, i, p, v, a, j, s, c1);
            return c1;
        }
        if (P.style == 3)
        {
            double sq = v.squaredNorm();
            if (sq <= P.hinge_thr)
            {
                if (cc->trace) record(t, tg, i, p, v, a, j, s, 0.0);
                return 0.0; // inactive: outputs deliberately left untouched
            }
            double d = sq - P.hinge_thr;
            // C^5 at the activation boundary: Richardson-extrapolated central differences (error O(h^4 f^(5))) stay valid
            // when a sample crosses it (a quartic hinge gave a false alarm once in ~2e5 runs of a thorough batch)
            double d2 = d * d;
            double c3 = P.hinge_w * d2 * d2 * d2;
            gv = (12.0 * P.hinge_w * d2 * d2 * d) * v;
            if (cc->trace) record(t, tg, i, p, v, a, j, s, c3);
            return c3;
        }
        const double m = (i >= 0 && i < (int)P.segw.size()) ? P.segw[i] : 1.0;
        Vec dp = p - P.p0;
        double c = 0.5 * P.wp * dp.squaredNorm() + 0.5 * P.wv * v.squaredNorm() + 0.5 * P.wa * a.squaredNorm() +
                   0.5 * P.wj * j.squaredNorm() + 0.5 * P.ws * s.squaredNorm() + P.wpv * dp.dot(v) + P.wva * v.dot(a);
        gp = P.wp * dp + P.wpv * v;
        gv = P.wv * v + P.wpv * dp + P.wva * a;
        ga = P.wa * a + P.wva * v;
        gj = P.wj * j;
        gs = P.ws * s;
        gt = 0.0;
        if (P.A != 0.0)
        {
            double sn = std::sin(P.omega * tg + P.phi), cs = std::cos(P.omega * tg + P.phi);
            double ep = P.e.dot(p);
            c += P.A * sn * ep + P.B * cs;
            gp += P.A * sn * P.e;
            gt = P.A * P.omega * cs * ep - P.B * P.omega * sn;
        }
        c *= m; gp *= m; gv *= m; ga *= m; gj *= m; gs *= m; gt *= m;
        if (P.style == 2 && std::sin(7.0 * tg + i) > 0.9) c = INFINITY; // hard barrier on some samples
        if (cc->fault.functor == 3)
        {
            const int comp = cc->fault.comp % DIM;
            switch (cc->fault.slot)
            {
            case 0: gp(comp) += cc->fault.delta; break;
            case 1: gv(comp) += cc->fault.delta; break;
            case 2: ga(comp) += cc->fault.delta; break;
            case 3: gj(comp) += cc->fault.delta; break;
            case 4: gs(comp) += cc->fault.delta; break;
            default: gt += cc->fault.delta; break;
            }
        }
        if (cc->trace) record(t, tg, i, p, v, a, j, s, c);
        return c;
    }
    void record(double t, double tg, int i, const Vec &p, const Vec &v, const Vec &a, const Vec &j, const Vec &s, double c) const
    {
        NoRace g;
        Sample<DIM> smp{t, tg, i, p, v, a, j, s, c};
        if (i >= 0 && i < (int)cc->trace->per_seg.size())
        {
            if (cc->trace->per_seg[i].empty()) cc->trace->arrival.push_back(i);
            cc->trace->per_seg[i].push_back(smp);
        }
        else
            cc->trace->other_seg.push_back(i);
    }
};

// ------------------------------------------------------------- executor ----
// mode 0 serial, 1 reverse, 2 permutation(seed), 3 contiguous partition on W fibers,
// 4 strided partition on W fibers, 5 one fiber per index.  Fibers interleave at every
// yield point inside the segment bodies (running-cost calls when yield_in_costs is on).
struct SimExecutor
{
    int mode = 0;
    uint64_t seed = 0;
    int workers = 2;
    std::vector<int> explicit_order; // mode 6: run exactly this order (enumeration of permutations)

    template <class F>
    void operator()(int start, int end, F &&f) const
    {
        const int n = end - start;
        if (n <= 0) return;
        std::vector<int> order(n);
        for (int k = 0; k < n; ++k) order[k] = start + k;
        Sched &S = Sched::get();
        RunCtx *ctx = cur_ctx();
        int m = mode;
        if (!S.in_run() && m >= 3 && m <= 5) m = 2;
        if (m == 1) std::reverse(order.begin(), order.end());
        else if (m == 2 || m >= 3)
        {
            Rng r(seed, 0xe8ec);
            for (int k = n - 1; k > 0; --k) std::swap(order[k], order[(int)r.below((uint64_t)k + 1)]);
            if (m >= 3 && m <= 5 && (seed & 1)) { for (int k = 0; k < n; ++k) order[k] = start + k; }
        }
        if (m == 6 && (int)explicit_order.size() == n)
            for (int k = 0; k < n; ++k) order[k] = start + explicit_order[k];
        if (ctx)
        {
            NoRace g;
            ctx->log.str("exec");
            ctx->log.i64(m);
            for (int k : order) ctx->log.i64(k);
        }
        if (m <= 2 || m == 6)
        {
            for (int k = 0; k < n; ++k)
            {
                f(order[k]);
                if (hooks().yield_in_executor) yield_point("executor_next");
            }
            return;
        }
        int W = m == 5 ? n : std::max(1, std::min(workers, n));
        std::vector<std::vector<int>> parts(W);
        if (m == 3)
            for (int k = 0; k < n; ++k) parts[(int)((long)k * W / n)].push_back(order[k]);
        else
            for (int k = 0; k < n; ++k) parts[k % W].push_back(order[k]);
        std::vector<int> ids;
        for (int w = 0; w < W; ++w)
        {
            const std::vector<int> *mine = &parts[w];
            ids.push_back(S.spawn([mine, &f]() {
                for (int idx : *mine)
                {
                    yield_point("executor_task_start");
                    f(idx);
                }
            }, "exec"));
        }
        if (ctx) ctx->count("probe.executor_on_fibers");
        S.join(ids);
    }
};

} // namespace env
