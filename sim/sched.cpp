// Scheduler implementation.  In the TSan variant this translation unit is
// compiled WITHOUT -fsanitize=thread so that the scheduler's own bookkeeping is
// invisible to the race detector; it talks to the sanitizer runtimes through
// weak symbols and works unchanged when none is linked.
#include "sched.hpp"
#include <ucontext.h>
#include <sys/mman.h>
#include <pthread.h>
#include <algorithm>

extern "C"
{
    void __sanitizer_start_switch_fiber(void **fake_stack_save, const void *bottom, size_t size) __attribute__((weak));
    void __sanitizer_finish_switch_fiber(void *fake_stack_save, const void **bottom_old, size_t *size_old) __attribute__((weak));
    void __asan_unpoison_memory_region(void const volatile *addr, size_t size) __attribute__((weak));
    void *__tsan_get_current_fiber(void) __attribute__((weak));
    void *__tsan_create_fiber(unsigned flags) __attribute__((weak));
    void __tsan_destroy_fiber(void *fiber) __attribute__((weak));
    void __tsan_switch_to_fiber(void *fiber, unsigned flags) __attribute__((weak));
    void __tsan_acquire(void *addr) __attribute__((weak));
    void __tsan_release(void *addr) __attribute__((weak));
    void AnnotateIgnoreReadsBegin(const char *f, int l) __attribute__((weak));
    void AnnotateIgnoreReadsEnd(const char *f, int l) __attribute__((weak));
    void AnnotateIgnoreWritesBegin(const char *f, int l) __attribute__((weak));
    void AnnotateIgnoreWritesEnd(const char *f, int l) __attribute__((weak));
}

// plain global read by the pthread_self wrapper (which may run during static initialisation, before Sched::get() is usable)
extern "C" { int stsim_fiber_identity = 0; }

namespace sim
{

static const size_t kStackSize = 512 * 1024;
static const size_t kGuard = 16 * 1024;

// ignore depth of the context that is running right now (saved/restored at switches)
static int g_norace_depth = 0;
static void real_ignore_begin()
{
    if (AnnotateIgnoreReadsBegin) { AnnotateIgnoreReadsBegin(__FILE__, __LINE__); AnnotateIgnoreWritesBegin(__FILE__, __LINE__); }
}
static void real_ignore_end()
{
    if (AnnotateIgnoreReadsEnd) { AnnotateIgnoreReadsEnd(__FILE__, __LINE__); AnnotateIgnoreWritesEnd(__FILE__, __LINE__); }
}
void norace_begin()
{
    if (g_norace_depth++ == 0) real_ignore_begin();
}
void norace_end()
{
    if (--g_norace_depth == 0) real_ignore_end();
}

std::string &pending_stall()
{
    static std::string s;
    return s;
}

std::exception_ptr &pending_error()
{
    static std::exception_ptr e;
    return e;
}

void hb_release(void *addr)
{
    if (__tsan_release) __tsan_release(addr);
}
void hb_acquire(void *addr)
{
    if (__tsan_acquire) __tsan_acquire(addr);
}

struct Sched::Fiber
{
    ucontext_t uc;
    char *map = nullptr;   // mmap base (guard + stack)
    char *stack = nullptr; // usable stack bottom
    size_t stack_size = 0;
    std::function<void()> fn;
    int id = 0;
    enum St { RUNNABLE, BLOCKED_JOIN, BLOCKED_MUTEX, DONE } st = RUNNABLE;
    std::vector<int> waiting_on;
    void *wait_mutex = nullptr;
    std::exception_ptr error;
    bool soft_error = false; // InjectedAbort: delivered to the joiner, does not abort the run
    void *tsan = nullptr;
    void *asan_fake = nullptr;
    std::string name;
    char sync_spawn = 0, sync_done = 0; // addresses for happens-before edges
};

static std::vector<char *> &stack_pool()
{
    static std::vector<char *> p;
    return p;
}

static char *alloc_stack()
{
    auto &pool = stack_pool();
    char *m;
    // Under the race detector a recycled stack would carry the shadow state of the fiber that used it before
    // (no happens-before edge links the two), so stacks are mapped fresh there: mmap resets the shadow.
    if (!pool.empty() && !__tsan_create_fiber)
    {
        m = pool.back();
        pool.pop_back();
    }
    else
    {
        m = (char *)mmap(nullptr, kStackSize + kGuard, PROT_READ | PROT_WRITE, MAP_PRIVATE | MAP_ANONYMOUS, -1, 0);
        if (m == (char *)MAP_FAILED) throw HarnessError("mmap of fiber stack failed");
        mprotect(m, kGuard, PROT_NONE);
    }
    if (__asan_unpoison_memory_region) __asan_unpoison_memory_region(m + kGuard, kStackSize);
    return m;
}

static void free_stack(char *m)
{
    if (!m) return;
    if (stack_pool().size() < 64 && !__tsan_create_fiber) stack_pool().push_back(m);
    else munmap(m, kStackSize + kGuard);
}

Sched::Sched()
{
    Fiber *m = new Fiber();
    m->id = 0;
    m->name = "main";
    pthread_attr_t attr;
    if (pthread_getattr_np(pthread_self(), &attr) == 0)
    {
        void *addr = nullptr;
        size_t sz = 0;
        pthread_attr_getstack(&attr, &addr, &sz);
        m->stack = (char *)addr;
        m->stack_size = sz;
        pthread_attr_destroy(&attr);
    }
    fibers_.push_back(m);
}

Sched &Sched::get()
{
    static Sched *s = new Sched(); // never destroyed: fibers may outlive static destruction order
    return *s;
}

void Sched::begin_run(const Plan &plan, uint64_t step_limit)
{
    NoRace norace_guard;
    if (in_run_) throw HarnessError("begin_run while a run is active");
    in_run_ = true;
    cur_ = 0;
    stsim_fiber_identity = 0;
    steps_ = switches_ = max_conc_ = 0;
    live_ = 0;
    step_limit_ = step_limit;
    recorded_.clear();
    sched_hash_ = Digest();
    abort_error_ = nullptr;
    mutex_owner_.clear();
    replaying_ = plan.sched_recorded;
    replay_ = &plan.schedule;
    replay_pos_ = 0;
    rng_.reseed(mix64(plan.sched_seed, 0x5c4ed));
    fibers_[0]->st = Fiber::RUNNABLE;
    fibers_[0]->tsan = __tsan_get_current_fiber ? __tsan_get_current_fiber() : nullptr;
}

std::vector<uint32_t> Sched::end_run()
{
    NoRace norace_guard;
    // abandon whatever is left (their frames are never resumed)
    for (size_t k = 1; k < fibers_.size(); ++k)
    {
        Fiber *f = fibers_[k];
        if (!f) continue;
        if (f->tsan && __tsan_destroy_fiber) __tsan_destroy_fiber(f->tsan);
        free_stack(f->map);
        f->fn = nullptr;
        delete f;
    }
    fibers_.resize(1);
    cur_ = 0;
    stsim_fiber_identity = 0;
    in_run_ = false;
    mutex_owner_.clear();
    abort_error_ = nullptr;
    return recorded_;
}

int Sched::live_fibers() const
{
    int n = 0;
    for (size_t k = 1; k < fibers_.size(); ++k)
        if (fibers_[k] && fibers_[k]->st != Fiber::DONE) ++n;
    return n;
}

void Sched::tick()
{
    if (++steps_ > step_limit_ && step_limit_)
    {
        step_limit_ = 0; // report once
        throw Stall("step limit exceeded (no progress within the bound)");
    }
}

uint32_t Sched::choose(uint32_t n)
{
    NoRace norace_guard;
    if (n <= 1) return 0;
    uint32_t raw;
    if (replaying_)
        raw = replay_pos_ < replay_->size() ? (*replay_)[replay_pos_++] : 0;
    else
        raw = rng_.chance(sticky_ / 1000.0) ? 0u : (uint32_t)(1 + rng_.below(1u << 16));
    recorded_.push_back(raw);
    uint32_t c = raw % n;
    sched_hash_.u64(((uint64_t)n << 32) | c);
    if (RunCtx *ctx = cur_ctx()) ctx->log.u64(((uint64_t)n << 32) | c);
    return c;
}

void Sched::trampoline(unsigned lo, unsigned hi)
{
    Fiber *f = (Fiber *)(((uintptr_t)hi << 32) | (uintptr_t)lo);
    Sched &S = Sched::get();
    if (__sanitizer_finish_switch_fiber) __sanitizer_finish_switch_fiber(nullptr, nullptr, nullptr);
    hb_acquire(&f->sync_spawn);
    try
    {
        f->fn();
    }
    catch (const InjectedAbort &)
    {
        f->error = std::current_exception();
        f->soft_error = true;
    }
    catch (...)
    {
        f->error = std::current_exception();
    }
    norace_begin();
    f->fn = nullptr;
    hb_release(&f->sync_done);
    S.fiber_exit();
}

int Sched::spawn(std::function<void()> fn, const char *name)
{
    NoRace norace_guard;
    if (!in_run_) throw HarnessError("spawn outside a run");
    if (fibers_.size() > 4096) throw HarnessError("too many fibers in one run");
    Fiber *f = new Fiber();
    f->id = (int)fibers_.size();
    f->name = name ? name : "fiber";
    f->fn = std::move(fn);
    f->map = alloc_stack();
    f->stack = f->map + kGuard;
    f->stack_size = kStackSize;
    getcontext(&f->uc);
    f->uc.uc_stack.ss_sp = f->stack;
    f->uc.uc_stack.ss_size = f->stack_size;
    f->uc.uc_link = nullptr;
    uintptr_t p = (uintptr_t)f;
    makecontext(&f->uc, (void (*)())trampoline, 2, (unsigned)(p & 0xffffffffu), (unsigned)(p >> 32));
    if (__tsan_create_fiber) f->tsan = __tsan_create_fiber(0);
    hb_release(&f->sync_spawn);
    fibers_.push_back(f);
    ++live_;
    uint64_t live = (uint64_t)live_fibers();
    if (live > max_conc_) max_conc_ = live;
    if (RunCtx *ctx = cur_ctx()) { ctx->log.str("spawn"); ctx->log.i64(f->id); }
    return f->id;
}

void Sched::switch_to(int next)
{
    Fiber *from = fibers_[cur_];
    Fiber *to = fibers_[next];
    if (from == to) return;
    cur_ = next;
    stsim_fiber_identity = in_run_ ? next : 0;
    ++switches_;
    int saved_depth = g_norace_depth;
    if (saved_depth > 0) real_ignore_end();
    g_norace_depth = 0;
    if (__sanitizer_start_switch_fiber)
        __sanitizer_start_switch_fiber(from->st == Fiber::DONE ? nullptr : &from->asan_fake, to->stack, to->stack_size);
    if (__tsan_switch_to_fiber && to->tsan) __tsan_switch_to_fiber(to->tsan, 1u /* no_sync */);
    swapcontext(&from->uc, &to->uc);
    // resumed in `from`
    if (__sanitizer_finish_switch_fiber) __sanitizer_finish_switch_fiber(from->asan_fake, nullptr, nullptr);
    g_norace_depth = saved_depth;
    if (saved_depth > 0) real_ignore_begin();
}

void Sched::check_abort()
{
    if (cur_ == 0 && abort_error_)
    {
        std::exception_ptr e = abort_error_;
        abort_error_ = nullptr;
        fibers_[0]->st = Fiber::RUNNABLE;
        std::rethrow_exception(e);
    }
}

void Sched::schedule()
{
    Fiber *me = fibers_[cur_];
    // candidates: current first (if runnable), then the others by id
    int cand[64];
    int n = 0;
    if (me->st == Fiber::RUNNABLE) cand[n++] = cur_;
    for (size_t k = 0; k < fibers_.size() && n < 64; ++k)
        if ((int)k != cur_ && fibers_[k] && fibers_[k]->st == Fiber::RUNNABLE) cand[n++] = (int)k;
    if (n == 0)
    {
        // nothing can run: every context is blocked
        me->st = Fiber::RUNNABLE;
        me->waiting_on.clear();
        me->wait_mutex = nullptr;
        throw Stall("deadlock: every context is blocked");
    }
    int next = cand[choose((uint32_t)n)];
    if (next != cur_) switch_to(next);
    check_abort();
}

void Sched::yield(const char *tag)
{
    NoRace norace_guard;
    if (!in_run_) return;
    // the step bound is a liveness bound: it counts scheduling steps while other contexts exist (a long serial
    // computation with many callbacks is progress, not a stall)
    if (live_ > 0) tick();
    else ++steps_;
    if (RunCtx *ctx = cur_ctx())
    {
        if (ctx->trace) ctx->trace->push_back(std::string("  yield ") + tag + " ctx=" + std::to_string(cur_));
    }
    if (fibers_.size() == 1) return; // nobody else exists
    schedule();
}

void Sched::fiber_exit()
{
    Fiber *me = fibers_[cur_];
    me->st = Fiber::DONE;
    --live_;
    // wake joiners
    for (Fiber *f : fibers_)
    {
        if (!f || f->st != Fiber::BLOCKED_JOIN) continue;
        bool all = true;
        for (int id : f->waiting_on)
            if (fibers_[id]->st != Fiber::DONE) all = false;
        if (all) f->st = Fiber::RUNNABLE;
    }
    if (me->error && !me->soft_error && !abort_error_)
    {
        // first failure aborts the run: go straight back to the main context
        abort_error_ = me->error;
        switch_to(0);
    }
    else
    {
        // pick any runnable context
        int cand[64];
        int n = 0;
        for (size_t k = 0; k < fibers_.size() && n < 64; ++k)
            if (fibers_[k] && fibers_[k]->st == Fiber::RUNNABLE) cand[n++] = (int)k;
        if (n == 0)
        {
            abort_error_ = std::make_exception_ptr(Stall("deadlock: a fiber finished and every other context is blocked"));
            switch_to(0);
        }
        else
            switch_to(cand[choose((uint32_t)n)]);
    }
    // never resumed
    std::abort();
}

void Sched::join(const std::vector<int> &ids)
{
    NoRace norace_guard;
    if (!in_run_) throw HarnessError("join outside a run");
    Fiber *me = fibers_[cur_];
    for (;;)
    {
        bool all = true;
        for (int id : ids)
            if (fibers_[id]->st != Fiber::DONE) all = false;
        if (all) break;
        tick();
        me->st = Fiber::BLOCKED_JOIN;
        me->waiting_on = ids;
        schedule();
        me->st = Fiber::RUNNABLE;
    }
    me->waiting_on.clear();
    std::exception_ptr first;
    for (int id : ids)
    {
        Fiber *f = fibers_[id];
        hb_acquire(&f->sync_done);
        if (f->error && !first) first = f->error;
        // reclaim the stack now; the record stays until end_run
        if (f->tsan && __tsan_destroy_fiber) { __tsan_destroy_fiber(f->tsan); f->tsan = nullptr; }
        free_stack(f->map);
        f->map = nullptr;
    }
    if (first) std::rethrow_exception(first);
}

void Sched::mutex_lock(void *m)
{
    NoRace norace_guard;
    if (!in_run_) return;
    Fiber *me = fibers_[cur_];
    yield("mutex_lock");
    for (;;)
    {
        auto it = mutex_owner_.find(m);
        if (it == mutex_owner_.end()) break;
        if (it->second == cur_) throw Stall("deadlock: relock of a non-recursive mutex by its owner");
        tick();
        me->st = Fiber::BLOCKED_MUTEX;
        me->wait_mutex = m;
        schedule();
        me->st = Fiber::RUNNABLE;
        me->wait_mutex = nullptr;
    }
    mutex_owner_[m] = cur_;
    hb_acquire(m);
}

bool Sched::mutex_trylock(void *m)
{
    NoRace norace_guard;
    if (!in_run_) return true;
    yield("mutex_trylock");
    if (mutex_owner_.count(m)) return false;
    mutex_owner_[m] = cur_;
    hb_acquire(m);
    return true;
}

void Sched::mutex_unlock(void *m)
{
    NoRace norace_guard;
    if (!in_run_) return;
    hb_release(m);
    mutex_owner_.erase(m);
    for (Fiber *f : fibers_)
        if (f && f->st == Fiber::BLOCKED_MUTEX && f->wait_mutex == m) f->st = Fiber::RUNNABLE;
    // no yield here: unlock usually runs inside a noexcept destructor (lock_guard)
}

} // namespace sim
