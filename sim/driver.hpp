#pragma once
#include "core.hpp"
#include "sched.hpp"

namespace sim
{

struct Outcome
{
    int status = 0; // 0 ok, 1 property violation, 2 harness error
    std::string cls; // "<prop>/<oracle>"
    std::string msg;
    uint64_t digest = 0, state_digest = 0, sched_hash = 0;
    uint64_t steps = 0, switches = 0, max_conc = 0, oracle_checks = 0;
    bool nontrivial = false;
    std::map<std::string, uint64_t> counters;
    std::vector<uint32_t> schedule; // raw decisions consumed
};

// Execute one plan in-process under the scheduler.
Outcome execute(const Workload &w, const Plan &plan, std::vector<std::string> *trace = nullptr);

// Race reports collected by the TSan hook during the current run (san.cpp)
struct RaceInfo
{
    int repo_reports = 0;    // reports with a frame in /repo/include
    int foreign_reports = 0; // reports without one (harness trouble)
    char first[400] = {0};   // short description of the first report (fixed buffer: the hook must not allocate)
};
RaceInfo &race_info();
void san_begin_run();

} // namespace sim
