// Seeded cooperative scheduler.  All "threads" of the system under test are
// fibers (ucontext) inside one OS thread; the scheduler alone decides who runs
// after every yield point.  Decisions are recorded as raw integers that are
// interpreted modulo the number of runnable contexts, so a recorded schedule
// stays meaningful when the plan is shrunk.
#pragma once
#include "core.hpp"
#include <exception>

namespace sim
{

class Sched
{
public:
    static Sched &get();

    // --- run lifetime -----------------------------------------------------
    void begin_run(const Plan &plan, uint64_t step_limit);
    // abandons unfinished fibers; returns the raw decisions that were consumed
    std::vector<uint32_t> end_run();
    bool in_run() const { return in_run_; }

    // probability (per mille) that a yield keeps the current context running
    void set_sticky(int permille) { sticky_ = permille; }

    // --- decisions --------------------------------------------------------
    // A recorded decision in [0,n).  Consumes nothing when n <= 1.
    uint32_t choose(uint32_t n);

    // --- contexts ---------------------------------------------------------
    int spawn(std::function<void()> fn, const char *name);
    void yield(const char *tag);
    // block the current context until all ids are done; rethrows the first error
    void join(const std::vector<int> &ids);
    int current() const { return cur_; }
    int live_fibers() const;

    // --- cooperative mutex (reached through --wrap=pthread_mutex_*) --------
    void mutex_lock(void *m);
    bool mutex_trylock(void *m);
    void mutex_unlock(void *m);

    // --- measurements -----------------------------------------------------
    uint64_t steps() const { return steps_; }
    uint64_t switches() const { return switches_; }
    uint64_t max_concurrent() const { return max_conc_; }
    uint64_t schedule_hash() const { return sched_hash_.h; }

    struct Fiber;

private:
    Sched();
    void schedule();            // pick next runnable and switch to it
    void switch_to(int next);
    [[noreturn]] void fiber_exit();
    static void trampoline(unsigned lo, unsigned hi);
    void check_abort();
    void tick();

    std::vector<Fiber *> fibers_; // [0] = main context
    int cur_ = 0;
    bool in_run_ = false;
    int sticky_ = 500;
    const std::vector<uint32_t> *replay_ = nullptr;
    size_t replay_pos_ = 0;
    bool replaying_ = false;
    Rng rng_;
    std::vector<uint32_t> recorded_;
    uint64_t steps_ = 0, step_limit_ = 0, switches_ = 0, max_conc_ = 0;
    int live_ = 0; // fibers spawned and not yet finished
    Digest sched_hash_;
    std::exception_ptr abort_error_;
    std::map<void *, int> mutex_owner_;
};

// convenience
inline void yield_point(const char *tag)
{
    Sched &s = Sched::get();
    if (s.in_run()) s.yield(tag);
}

// set by the mutex wrapper when a deadlock was detected inside a nothrow C function
std::string &pending_stall();
std::exception_ptr &pending_error();

// RAII: sanitizer happens-before edge helpers (no-ops outside TSan)
void hb_release(void *addr);
void hb_acquire(void *addr);

} // namespace sim
