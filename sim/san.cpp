// Sanitizer glue: default options, and the ThreadSanitizer report hook that
// turns a race report into a per-run, classifiable event.
#include "driver.hpp"
#include <cstring>
#include <cstdlib>

namespace sim
{
RaceInfo &race_info()
{
    static RaceInfo r;
    return r;
}
void san_begin_run() { race_info() = RaceInfo(); }
} // namespace sim

extern "C"
{
    __attribute__((used, visibility("default"))) const char *__asan_default_options()
    {
        return "exitcode=77:detect_leaks=0:abort_on_error=0:detect_stack_use_after_return=0:handle_segv=1";
    }
#ifndef STSIM_TSAN
    // (the TSan runtime also parses the UBSan defaults and would take this exit code)
    __attribute__((used, visibility("default"))) const char *__ubsan_default_options()
    {
        return "halt_on_error=1:exitcode=77:print_stacktrace=1";
    }
#endif
    __attribute__((used, visibility("default"))) const char *__tsan_default_options()
    {
        // every occurrence is reported (no de-duplication), so a run's verdict does not depend on
        // what earlier runs in the same process reported; the process exit code is left alone.
        // (symbolization is switched on for single replays through TSAN_OPTIONS, see fresh_replay)
        return "suppress_equal_stacks=0:suppress_equal_addresses=0:exitcode=0:report_signal_unsafe=0:history_size=7:symbolize=0";
    }

    int __tsan_get_report_data(void *report, const char **description, int *count, int *stack_count, int *mop_count,
                               int *loc_count, int *mutex_count, int *thread_count, int *unique_tid_count, void **sleep_trace,
                               unsigned long trace_size) __attribute__((weak));
    int __tsan_get_report_mop(void *report, unsigned long idx, int *tid, void **addr, int *size, int *write, int *atomic,
                              void **trace, unsigned long trace_size) __attribute__((weak));
    void __sanitizer_symbolize_pc(void *pc, const char *fmt, char *out_buf, size_t out_buf_size) __attribute__((weak));

    // Classify one report of the race detector.  Runs inside the runtime's report path: no heap
    // allocation, no instrumented code.  In batch mode reports are not symbolized (the external
    // symbolizer needs seconds on this binary): every report counts as a candidate, and the
    // fresh-process replay (STSIM_SYMBOLIZE=1) decides by frame whether the library is involved.
    static void stsim_handle_report(void *rep)
    {
        using namespace sim;
        RaceInfo &ri = race_info();
        static const bool symbolize = std::getenv("STSIM_SYMBOLIZE") != nullptr;
        if (!__tsan_get_report_data || !__tsan_get_report_mop) { ++ri.foreign_reports; return; }
        const char *desc = "";
        int count = 0, stacks = 0, mops = 0, locs = 0, mutexes = 0, threads = 0, utids = 0;
        void *sleep_trace[4];
        __tsan_get_report_data(rep, &desc, &count, &stacks, &mops, &locs, &mutexes, &threads, &utids, sleep_trace, 4);
        bool repo = !symbolize;
        char where[400];
        size_t wl = 0;
        where[0] = 0;
        auto append = [&](const char *t) {
            while (*t && wl + 1 < sizeof where) where[wl++] = *t++;
            where[wl] = 0;
        };
        append(desc ? desc : "race");
        append(": ");
        for (int m = 0; m < mops && symbolize; ++m)
        {
            int tid = 0, size = 0, write = 0, atomic = 0;
            void *addr = nullptr;
            void *trace[24];
            std::memset(trace, 0, sizeof trace);
            __tsan_get_report_mop(rep, (unsigned long)m, &tid, &addr, &size, &write, &atomic, trace, 24);
            for (int k = 0; k < 24 && trace[k]; ++k)
            {
                // the buffer receives one zero-terminated string per (inlined) frame of this pc, ended by an empty string
                char buf[4096];
                std::memset(buf, 0, sizeof buf);
                if (__sanitizer_symbolize_pc) __sanitizer_symbolize_pc(trace[k], "%s:%l", buf, sizeof buf - 2);
                const char *p = nullptr;
                for (const char *q = buf; *q && q < buf + sizeof buf - 2; q += std::strlen(q) + 1)
                    if ((p = std::strstr(q, "/include/Spline")) != nullptr) break;
                if (p)
                {
                    repo = true;
                    append(m ? " <-> " : "");
                    append(write ? "W " : "R ");
                    append(p + 9);
                    break;
                }
            }
        }
        if (!symbolize) append("(unsymbolized; replay the file for frames)");
        if (repo) { if (ri.repo_reports++ == 0) std::strncpy(ri.first, where, sizeof ri.first - 1); }
        else { if (ri.foreign_reports++ == 0 && !ri.first[0]) std::strncpy(ri.first, where, sizeof ri.first - 1); }
    }
}

// The runtime calls this (weak in the runtime, overridden here) for every report before printing it.
// Returning true suppresses the text: a batch would otherwise spend its time printing thousands of
// identical reports.  STSIM_TSAN_PRINT=1 keeps the full text (useful when replaying one file).
namespace __tsan
{
class ReportDesc;
bool OnReport(const ReportDesc *rep, bool suppressed);
bool OnReport(const ReportDesc *rep, bool suppressed)
{
    static const bool print = std::getenv("STSIM_TSAN_PRINT") != nullptr;
    if (suppressed) return true;
    stsim_handle_report((void *)rep);
    return !print;
}
} // namespace __tsan
