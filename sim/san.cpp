// Sanitizer glue: default options, and the ThreadSanitizer report hook that
// turns a race report into a per-run, classifiable event.
#include "driver.hpp"
#include <cstring>

namespace sim
{
RaceInfo &race_info()
{
    static RaceInfo r;
    return r;
}
void san_begin_run() { race_info() = RaceInfo(); }
} // namespace sim

extern "C"
{
    __attribute__((used, visibility("default"))) const char *__asan_default_options()
    {
        return "exitcode=77:detect_leaks=0:abort_on_error=0:detect_stack_use_after_return=0:handle_segv=1";
    }
#ifndef STSIM_TSAN
    // (the TSan runtime also parses the UBSan defaults and would take this exit code)
    __attribute__((used, visibility("default"))) const char *__ubsan_default_options()
    {
        return "halt_on_error=1:exitcode=77:print_stacktrace=1";
    }
#endif
    __attribute__((used, visibility("default"))) const char *__tsan_default_options()
    {
        // every occurrence is reported (no de-duplication), so a run's verdict does not depend on
        // what earlier runs in the same process reported; the process exit code is left alone.
        return "suppress_equal_stacks=0:suppress_equal_addresses=0:exitcode=0:report_signal_unsafe=0:"
               "history_size=7:external_symbolizer_path=/usr/bin/llvm-symbolizer-14";
    }

    int __tsan_get_report_data(void *report, const char **description, int *count, int *stack_count, int *mop_count,
                               int *loc_count, int *mutex_count, int *thread_count, int *unique_tid_count, void **sleep_trace,
                               unsigned long trace_size) __attribute__((weak));
    int __tsan_get_report_mop(void *report, unsigned long idx, int *tid, void **addr, int *size, int *write, int *atomic,
                              void **trace, unsigned long trace_size) __attribute__((weak));
    void __sanitizer_symbolize_pc(void *pc, const char *fmt, char *out_buf, size_t out_buf_size) __attribute__((weak));

    // called by the TSan runtime for every report it is about to print
    __attribute__((used, visibility("default"))) void __tsan_on_report(void *rep)
    {
        using namespace sim;
        RaceInfo &ri = race_info();
        if (!__tsan_get_report_data || !__tsan_get_report_mop) { ++ri.foreign_reports; return; }
        const char *desc = "";
        int count = 0, stacks = 0, mops = 0, locs = 0, mutexes = 0, threads = 0, utids = 0;
        void *sleep_trace[4];
        __tsan_get_report_data(rep, &desc, &count, &stacks, &mops, &locs, &mutexes, &threads, &utids, sleep_trace, 4);
        bool repo = false;
        std::string where;
        for (int m = 0; m < mops; ++m)
        {
            int tid = 0, size = 0, write = 0, atomic = 0;
            void *addr = nullptr;
            void *trace[24];
            std::memset(trace, 0, sizeof trace);
            __tsan_get_report_mop(rep, (unsigned long)m, &tid, &addr, &size, &write, &atomic, trace, 24);
            for (int k = 0; k < 24 && trace[k]; ++k)
            {
                char buf[1024];
                buf[0] = 0;
                if (__sanitizer_symbolize_pc) __sanitizer_symbolize_pc(trace[k], "%s:%l", buf, sizeof buf);
                const char *p = std::strstr(buf, "/repo/include/");
                if (p)
                {
                    repo = true;
                    if (where.size() < 300)
                    {
                        if (!where.empty()) where += (k == 0 ? " <-> " : " < ");
                        where += (write ? "W " : "R ");
                        where += (p + 14);
                    }
                    break;
                }
            }
        }
        std::string d = std::string(desc ? desc : "race") + ": " + where;
        if (repo) { if (ri.repo_reports++ == 0) ri.first = d; }
        else { if (ri.foreign_reports++ == 0 && ri.first.empty()) ri.first = d; }
    }
}
