// stsim: batch runner, minimiser and replayer.
//
//   stsim list
//   stsim run --prop C03 [--universe U] --seed S --runs N [--workers W]
//             [--tier quick|thorough] [--max-seconds T] --out summary.json
//             [--replay-dir DIR] [--digests FILE] [--first R]
//   stsim replay FILE [-v]
//
// Exit: 0 = nothing found, 1 = reproduced violation(s) (VIOLATION lines on
// stdout), 2 = harness trouble (a gate failed, a worker could not be restarted…)
#include "driver.hpp"
#include <unistd.h>
#include <sys/wait.h>
#include <sys/mman.h>
#include <sys/stat.h>
#include <fcntl.h>
#include <malloc.h>
#include <csignal>
#include <ctime>
#include <fstream>
#include <iostream>
#include <algorithm>

extern "C" int __llvm_profile_write_file(void) __attribute__((weak));

namespace sim
{

static double now_s()
{
    timespec ts;
    clock_gettime(CLOCK_MONOTONIC, &ts);
    return ts.tv_sec + ts.tv_nsec * 1e-9;
}

Outcome execute(const Workload &w, const Plan &plan, std::vector<std::string> *trace)
{
    Outcome o;
    RunCtx ctx;
    ctx.trace = trace;
    cur_ctx() = &ctx;
    Sched &S = Sched::get();
    san_begin_run();
    ctx.log.str(plan.prop);
    ctx.log.str(plan.universe);
    bool begun = false;
    pending_stall().clear();
    pending_error() = nullptr;
    try
    {
        try
        {
            S.begin_run(plan, 20000000);
            begun = true;
            w.exec(plan, ctx);
        }
        catch (...)
        {
            // a failure that had to cross a nothrow C frame (the mutex wrapper) was parked: it is the real cause
            if (pending_error())
            {
                std::exception_ptr e = pending_error();
                pending_error() = nullptr;
                std::rethrow_exception(e);
            }
            throw;
        }
    }
    catch (const Violation &v) { o.status = 1; o.cls = plan.prop + "/" + v.oracle; o.msg = v.msg; }
    catch (const EigenAssert &e) { o.status = 1; o.cls = plan.prop + "/eigen_assert"; o.msg = e.msg; }
    catch (const DeadMap &e) { o.status = 1; o.cls = plan.prop + "/dead_map"; o.msg = e.what(); }
    catch (const Stall &e) { o.status = 1; o.cls = plan.prop + "/stall"; o.msg = e.msg; }
    catch (const HarnessError &e) { o.status = 2; o.cls = "harness"; o.msg = e.what(); }
    catch (const std::exception &e) { o.status = 1; o.cls = plan.prop + "/unexpected_exception"; o.msg = e.what(); }
    if (!pending_stall().empty())
    {
        o.status = 1;
        o.cls = plan.prop + "/stall";
        o.msg = pending_stall();
        pending_stall().clear();
    }
    o.steps = S.steps();
    o.switches = S.switches();
    o.max_conc = S.max_concurrent();
    o.sched_hash = S.schedule_hash();
    if (begun) o.schedule = S.end_run();
    RaceInfo &ri = race_info();
    if (o.status == 0 && ri.repo_reports > 0)
    {
        o.status = 1;
        o.cls = plan.prop + "/data_race";
        o.msg = ri.first;
    }
    else if (o.status == 0 && ri.foreign_reports > 0)
    {
        o.status = 2;
        o.cls = "harness";
        o.msg = std::string("race report without a frame in /repo/include: ") + ri.first;
    }
    if (o.status == 1) { ctx.log.str("violation"); ctx.log.str(o.cls); }
    o.digest = ctx.log.h;
    o.state_digest = ctx.state.h;
    o.nontrivial = ctx.nontrivial;
    o.oracle_checks = ctx.oracle_checks;
    o.counters = std::move(ctx.counters);
    cur_ctx() = nullptr;
    return o;
}

// ------------------------------------------------------------ minimiser ----
struct Tester
{
    const Workload *w;
    std::string cls;
    int budget;
    int used = 0;
    bool isolated = false; // fork per candidate (for crashes)
    int crash_code = 0;
    bool fails(const Plan &p);
};

static int run_isolated(const Workload &w, const Plan &p, std::string *cls_out)
{
    int fds[2];
    if (pipe(fds) != 0) return -1;
    fflush(nullptr);
    pid_t pid = fork();
    if (pid == 0)
    {
        close(fds[0]);
        fcntl(fds[1], F_SETFD, FD_CLOEXEC); // a symbolizer child must not inherit the pipe
        // keep sanitizer chatter of minimisation candidates off the terminal
        int dn = open("/dev/null", O_WRONLY);
        if (dn >= 0) { dup2(dn, 2); }
        Outcome o = execute(w, p);
        std::string s = std::to_string(o.status) + " " + o.cls + "\n";
        ssize_t r = write(fds[1], s.data(), s.size());
        (void)r;
        _exit(o.status == 1 ? 1 : (o.status == 2 ? 2 : 0));
    }
    close(fds[1]);
    char buf[512];
    std::string got;
    ssize_t n;
    while ((n = read(fds[0], buf, sizeof buf)) > 0) got.append(buf, n);
    close(fds[0]);
    int st = 0;
    waitpid(pid, &st, 0);
    if (WIFSIGNALED(st)) { if (cls_out) *cls_out = "signal-" + std::to_string(WTERMSIG(st)); return 100 + WTERMSIG(st); }
    int code = WEXITSTATUS(st);
    if (code == 0 || code == 1 || code == 2)
    {
        size_t sp = got.find(' ');
        if (cls_out && sp != std::string::npos) *cls_out = got.substr(sp + 1, got.find('\n') - sp - 1);
        return code;
    }
    if (cls_out) *cls_out = "exit-" + std::to_string(code);
    return code;
}

static std::string crash_class(const std::string &prop, int code)
{
    if (code == 77) return prop + "/sanitizer_abort";
    if (code >= 100) return prop + "/signal-" + std::to_string(code - 100);
    return prop + "/exit-" + std::to_string(code);
}

bool Tester::fails(const Plan &p)
{
    if (used >= budget) return false;
    ++used;
    if (!isolated)
    {
        Outcome o = execute(*w, p);
        return o.status == 1 && o.cls == cls;
    }
    std::string c;
    int code = run_isolated(*w, p, &c);
    if (code == 1) return c == cls;
    if (code > 2) return crash_class(p.prop, code) == cls;
    return false;
}

static void shrink_int(Tester &t, Plan &best, int64_t &slot_in_best, std::function<int64_t &(Plan &)> slot)
{
    int64_t v = slot_in_best;
    if (v == 0) return;
    std::vector<int64_t> tries;
    tries.push_back(0);
    if (v != 1 && v > 0) tries.push_back(1);
    if (v / 2 != 0 && v / 2 != 1) tries.push_back(v / 2);
    if (v > 2) tries.push_back(v - 1);
    if (v < 0) tries.push_back(-v);
    for (int64_t c : tries)
    {
        if (c == v) continue;
        Plan cand = best;
        slot(cand) = c;
        if (t.fails(cand)) { best = cand; return; }
    }
}

static Plan minimise(Tester &t, Plan plan)
{
    Plan best = plan;
    // 1. ddmin over operations
    size_t chunk = best.ops.size() / 2;
    while (chunk >= 1 && !best.ops.empty())
    {
        bool removed = false;
        for (size_t start = 0; start < best.ops.size();)
        {
            Plan cand = best;
            size_t end = std::min(best.ops.size(), start + chunk);
            cand.ops.erase(cand.ops.begin() + start, cand.ops.begin() + end);
            if (t.fails(cand)) { best = cand; removed = true; }
            else start += chunk;
            if (t.used >= t.budget) break;
        }
        if (t.used >= t.budget) break;
        if (!removed || chunk > best.ops.size())
        {
            if (chunk == 1) break;
            chunk = std::max<size_t>(1, chunk / 2);
        }
    }
    // 2. simplify integer arguments (configuration, then operations)
    for (int round = 0; round < 2; ++round)
    {
        for (size_t k = 0; k < best.ci.size(); ++k)
            shrink_int(t, best, best.ci[k], [k](Plan &p) -> int64_t & { return p.ci[k]; });
        for (size_t a = 0; a < best.ops.size(); ++a)
            for (size_t k = 0; k < best.ops[a].i.size(); ++k)
                shrink_int(t, best, best.ops[a].i[k], [a, k](Plan &p) -> int64_t & { return p.ops[a].i[k]; });
    }
    // 3. simplify the schedule: truncate the tail, then zero single decisions
    if (best.sched_recorded && !best.schedule.empty())
    {
        {
            Plan cand = best;
            cand.schedule.clear();
            if (t.fails(cand)) best = cand;
        }
        size_t lo = 0, hi = best.schedule.size(); // smallest failing prefix length
        while (lo < hi && t.used < t.budget)
        {
            size_t mid = (lo + hi) / 2;
            Plan cand = best;
            cand.schedule.resize(mid);
            if (t.fails(cand)) hi = mid;
            else lo = mid + 1;
        }
        if (hi < best.schedule.size())
        {
            Plan cand = best;
            cand.schedule.resize(hi);
            if (t.fails(cand)) best = cand;
        }
        for (size_t k = 0; k < best.schedule.size() && best.schedule.size() <= 400; ++k)
        {
            if (best.schedule[k] == 0) continue;
            Plan cand = best;
            cand.schedule[k] = 0;
            if (t.fails(cand)) best = cand;
        }
        while (!best.schedule.empty() && best.schedule.back() == 0) best.schedule.pop_back();
    }
    return best;
}

// --------------------------------------------------------------- batch -----
struct Args
{
    std::string cmd, prop, universe, out, replay_dir = "replays", digests, file, tier = "quick";
    uint64_t seed = 1, runs = 1000, first = 0;
    int workers = 16;
    double max_seconds = 0;
    bool verbose = false;
    int max_violations = 3;
    int min_budget = 600;
    bool isolate = false; // every run in a process of its own (first-use races on process-wide state)
};

static std::vector<const Workload *> workloads_for(const std::string &prop, const std::string &universe)
{
    std::vector<const Workload *> v;
    for (auto &w : registry())
        if (w.prop == prop && (universe.empty() || w.universe == universe)) v.push_back(&w);
    std::sort(v.begin(), v.end(), [](const Workload *a, const Workload *b) { return a->universe < b->universe; });
    return v;
}

static uint64_t hash_str(const std::string &s)
{
    Digest d;
    d.str(s);
    return d.h;
}

static const Workload *choose_workload(const std::vector<const Workload *> &ws, uint64_t run_seed)
{
    uint64_t total = 0;
    for (auto *w : ws) total += (uint64_t)w->weight;
    Rng r(run_seed, 0xA11);
    uint64_t x = r.below(total);
    for (auto *w : ws)
    {
        if (x < (uint64_t)w->weight) return w;
        x -= (uint64_t)w->weight;
    }
    return ws.back();
}

static std::string json_escape(const std::string &s)
{
    std::string o;
    for (char c : s)
    {
        if (c == '"' || c == '\\') { o += '\\'; o += c; }
        else if (c == '\n') o += "\\n";
        else if ((unsigned char)c < 0x20) o += ' ';
        else o += c;
    }
    return o;
}

struct ViolationRec
{
    uint64_t r = 0, seed = 0;
    std::string cls, path, msg, universe;
    bool crash = false;
    bool confirmed = false;
};

static std::string write_replay(const Args &a, const Workload &w, const Plan &p)
{
    mkdir(a.replay_dir.c_str(), 0777);
    std::string cls = p.expect;
    for (auto &c : cls)
        if (c == '/') c = '_';
    std::string path = a.replay_dir + "/" + p.prop + "-" + p.universe + "-" + std::to_string(p.seed) + "-" + cls + ".replay";
    std::ofstream f(path);
    f << plan_to_text(p, w.op_names, w.n_op_names);
    return path;
}

// one worker: runs indices first+k, first+k+W, ... < first+runs
static void worker_main(const Args &a, int k, int W, uint64_t start_r, volatile uint64_t *progress, const std::string &outfile)
{
    FILE *out = fopen(outfile.c_str(), "a");
    if (!out) _exit(3);
    auto ws = workloads_for(a.prop, a.universe);
    Tier tier = a.tier == "thorough" ? Tier::Thorough : Tier::Quick;
    uint64_t pseed = mix64(a.seed, hash_str(a.prop));
    std::map<std::string, uint64_t> counters;
    std::map<std::string, uint64_t> per_universe;
    uint64_t steps = 0, switches = 0, oracle_checks = 0, nviol = 0;
    double t0 = now_s();
    int samples = 0;
    auto write_totals = [&]() {
        for (auto &c : counters) fprintf(out, "C %s %llu\n", c.first.c_str(), (unsigned long long)c.second);
        for (auto &c : per_universe) fprintf(out, "U %s %llu\n", c.first.c_str(), (unsigned long long)c.second);
        fprintf(out, "T %llu %llu %llu\n", (unsigned long long)steps, (unsigned long long)switches, (unsigned long long)oracle_checks);
    };
    std::function<void(uint64_t)> process = [&](uint64_t r)
    {
        uint64_t run_seed = mix64(pseed, r);
        const Workload *w = choose_workload(ws, run_seed);
        Plan plan = w->gen(run_seed, r, tier);
        plan.prop = w->prop;
        plan.universe = w->universe;
        plan.seed = run_seed;
        if (plan.sched_seed == 0) plan.sched_seed = mix64(run_seed, 0x5ced);
        Outcome o = execute(*w, plan);
        fprintf(out, "R %llu %llu %llx %llx %llx %d %llu\n", (unsigned long long)r, (unsigned long long)run_seed,
                (unsigned long long)o.digest, (unsigned long long)o.state_digest, (unsigned long long)o.sched_hash,
                (o.nontrivial ? 1 : 0) | (o.max_conc >= 2 ? 2 : 0), (unsigned long long)o.steps);
        steps += o.steps;
        switches += o.switches;
        oracle_checks += o.oracle_checks;
        per_universe[w->universe]++;
        for (auto &c : o.counters) counters[c.first] += c.second;
        if (samples < 2 && (r % 7 == 0 || samples == 0) && k < 4)
        {
            fprintf(out, "S %s\n", plan_pretty(plan, w->op_names, w->n_op_names, 24).c_str());
            ++samples;
        }
        if (o.status == 2)
        {
            fprintf(out, "H %llu %llu %s\n", (unsigned long long)r, (unsigned long long)run_seed, json_escape(o.msg).c_str());
            fflush(out);
            return;
        }
        if (o.status == 1 && a.isolate)
        {
            // this process is no longer pristine: the clean worker above us re-executes, gates and minimises the
            // candidate in fresh children of its own
            Plan rec = plan;
            rec.sched_recorded = true;
            rec.schedule = o.schedule;
            rec.expect = o.cls;
            std::string tmp = a.replay_dir + "/.isolate." + std::to_string(getppid()) + ".tmp";
            mkdir(a.replay_dir.c_str(), 0777);
            std::ofstream f(tmp);
            f << plan_to_text(rec, w->op_names, w->n_op_names);
            f.close();
            fflush(out);
            fclose(out);
            _exit(9);
        }
        if (o.status == 1)
        {
            ++nviol;
            if ((int)nviol > a.max_violations) { fprintf(out, "X %llu %s\n", (unsigned long long)r, o.cls.c_str()); fflush(out); return; }
            // gate 1: the recorded schedule reproduces the same event log and class, twice.  A system under
            // test that has undefined behaviour (use of freed memory after a lost race) may fail differently
            // on each execution: such a candidate is kept unminimised and flagged, provided it fails again.
            Plan rec = plan;
            rec.sched_recorded = true;
            rec.schedule = o.schedule;
            Outcome o1 = execute(*w, rec), o2 = execute(*w, rec);
            bool exact = o1.status == 1 && o2.status == 1 && o1.cls == o.cls && o2.cls == o.cls && o1.digest == o.digest && o2.digest == o.digest;
            if (!exact)
            {
                rec.expect = o.cls;
                std::string path = write_replay(a, *w, rec);
                if (o1.status == 1 || o2.status == 1)
                    fprintf(out, "V %llu %llu %s %s %s | UNSTABLE: re-execution failed as %s / %s (undefined behaviour in the system under test?); not minimised | %s\n",
                            (unsigned long long)r, (unsigned long long)run_seed, w->universe.c_str(), o.cls.c_str(), path.c_str(),
                            o1.status == 1 ? o1.cls.c_str() : "ok", o2.status == 1 ? o2.cls.c_str() : "ok", json_escape(o.msg).c_str());
                else
                    fprintf(out, "H %llu %llu gate1: violation %s did not reproduce in-process (kept at %s)\n", (unsigned long long)r,
                            (unsigned long long)run_seed, o.cls.c_str(), path.c_str());
                fflush(out);
                return;
            }
            Tester t{w, o.cls, a.min_budget};
            // the data-race detector de-duplicates nothing (suppress_equal_* = 0), so in-process works for it too
            Plan min = minimise(t, rec);
            min.expect = o.cls;
            Outcome om = execute(*w, min);
            std::string path = write_replay(a, *w, min);
            fprintf(out, "V %llu %llu %s %s %s | ops %zu->%zu sched %zu->%zu tests %d | %s\n", (unsigned long long)r,
                    (unsigned long long)run_seed, w->universe.c_str(), o.cls.c_str(), path.c_str(), plan.ops.size(), min.ops.size(),
                    rec.schedule.size(), min.schedule.size(), t.used, json_escape(om.status == 1 ? om.msg : o.msg).c_str());
            fflush(out);
        }
    };
    for (uint64_t r = start_r; r < a.first + a.runs; r += (uint64_t)W)
    {
        if (a.max_seconds > 0 && now_s() - t0 > a.max_seconds) break;
        progress[k] = r;
        if (a.isolate)
        {
            // the run executes in a child of this (still untouched) worker: nothing of the library has run in it before
            fflush(out);
            pid_t c = fork();
            if (c == 0)
            {
                process(r);
                write_totals();
                fclose(out);
                if (__llvm_profile_write_file) __llvm_profile_write_file();
                _exit(0);
            }
            int st = 0;
            waitpid(c, &st, 0);
            fseek(out, 0, SEEK_END);
            if (WIFEXITED(st) && WEXITSTATUS(st) == 9)
            {
                // a candidate found in the child: gate and minimise it from here, every execution in a fresh process
                std::string tmp = a.replay_dir + "/.isolate." + std::to_string(getpid()) + ".tmp";
                std::ifstream f(tmp);
                std::stringstream ss;
                ss << f.rdbuf();
                std::string text = ss.str(), prop, universe, err;
                {
                    std::istringstream is(text);
                    std::string line;
                    while (std::getline(is, line))
                    {
                        if (line.rfind("prop ", 0) == 0) prop = line.substr(5);
                        if (line.rfind("universe ", 0) == 0) universe = line.substr(9);
                    }
                }
                const Workload *w = find_workload(prop, universe);
                Plan p;
                if (w && plan_from_text(text, p, w->op_names, w->n_op_names, err) && ++nviol <= (uint64_t)a.max_violations)
                {
                    Tester t{w, p.expect, std::min(a.min_budget, 120)};
                    t.isolated = true;
                    if (t.fails(p) && t.fails(p))
                    {
                        Plan min = minimise(t, p);
                        min.expect = p.expect;
                        std::string path = write_replay(a, *w, min);
                        fprintf(out, "V %llu %llu %s %s %s | ops %zu->%zu sched %zu->%zu tests %d (each in a fresh process) | found in an isolated run\n", (unsigned long long)r,
                                (unsigned long long)p.seed, w->universe.c_str(), p.expect.c_str(), path.c_str(), p.ops.size(), min.ops.size(), p.schedule.size(), min.schedule.size(), t.used);
                    }
                    else
                        fprintf(out, "H %llu %llu gate1: candidate %s of an isolated run did not fail again in two fresh processes\n", (unsigned long long)r, (unsigned long long)p.seed, p.expect.c_str());
                    fflush(out);
                }
                unlink(tmp.c_str());
                continue;
            }
            if (!(WIFEXITED(st) && WEXITSTATUS(st) == 0)) _exit(WIFSIGNALED(st) ? 128 + WTERMSIG(st) : WEXITSTATUS(st));
            continue;
        }
        process(r);
    }
    progress[k] = ~0ULL;
    write_totals();
    fprintf(out, "D\n");
    fclose(out);
    if (__llvm_profile_write_file) __llvm_profile_write_file(); // coverage build only (tools/coverage.sh)
    _exit(0);
}

static int cmd_replay(const Args &a)
{
    std::ifstream f(a.file);
    if (!f) { fprintf(stderr, "cannot open %s\n", a.file.c_str()); return 2; }
    std::stringstream ss;
    ss << f.rdbuf();
    std::string text = ss.str();
    // first pass: prop and universe
    std::string prop, universe;
    {
        std::istringstream is(text);
        std::string line;
        while (std::getline(is, line))
        {
            if (line.rfind("prop ", 0) == 0) prop = line.substr(5);
            if (line.rfind("universe ", 0) == 0) universe = line.substr(9);
        }
    }
    const Workload *w = find_workload(prop, universe);
    if (!w) { fprintf(stderr, "no workload %s/%s in this binary\n", prop.c_str(), universe.c_str()); return 2; }
    Plan p;
    std::string err;
    if (!plan_from_text(text, p, w->op_names, w->n_op_names, err)) { fprintf(stderr, "bad replay file: %s\n", err.c_str()); return 2; }
    std::vector<std::string> trace;
    Outcome o = execute(*w, p, a.verbose ? &trace : nullptr);
    if (a.verbose)
        for (auto &l : trace) printf("%s\n", l.c_str());
    printf("plan: %s\n", plan_pretty(p, w->op_names, w->n_op_names, 200).c_str());
    printf("digest=%llx steps=%llu switches=%llu\n", (unsigned long long)o.digest, (unsigned long long)o.steps, (unsigned long long)o.switches);
    if (o.status == 2) { printf("HARNESS-ERROR %s\n", o.msg.c_str()); return 2; }
    if (o.status == 1)
    {
        printf("class=%s\n%s\n", o.cls.c_str(), o.msg.c_str());
        printf("VIOLATION property=%s replay=%s\n", p.prop.c_str(), a.file.c_str());
        return 1;
    }
    printf("OK (no violation)\n");
    return 0;
}

// run `stsim replay file` in a fresh process; returns exit code (or 100+sig), fills class
static int fresh_replay(const std::string &file, std::string &cls_out)
{
    int fds[2];
    if (pipe(fds) != 0) return -1;
    fflush(nullptr);
    pid_t pid = fork();
    if (pid == 0)
    {
        close(fds[0]);
        dup2(fds[1], 1);
        close(fds[1]); // nothing else (e.g. a symbolizer child) may keep the pipe open
        int dn = open("/dev/null", O_WRONLY);
        if (dn >= 0) dup2(dn, 2);
        // a single replay can afford symbolized race reports (classification by frame)
        setenv("STSIM_SYMBOLIZE", "1", 1);
        setenv("TSAN_OPTIONS", "symbolize=1:external_symbolizer_path=/usr/bin/llvm-symbolizer-14", 1);
        execl("/proc/self/exe", "stsim", "replay", file.c_str(), (char *)nullptr);
        _exit(127);
    }
    close(fds[1]);
    std::string got;
    char buf[4096];
    ssize_t n;
    while ((n = read(fds[0], buf, sizeof buf)) > 0) got.append(buf, n);
    close(fds[0]);
    int st = 0;
    waitpid(pid, &st, 0);
    size_t p = got.find("class=");
    if (p != std::string::npos) cls_out = got.substr(p + 6, got.find('\n', p) - p - 6);
    if (WIFSIGNALED(st)) return 100 + WTERMSIG(st);
    return WEXITSTATUS(st);
}

static int cmd_run(const Args &a)
{
    auto ws = workloads_for(a.prop, a.universe);
    if (ws.empty()) { fprintf(stderr, "no workload for property %s in this binary\n", a.prop.c_str()); return 2; }
    int W = std::max(1, a.workers);
    if ((uint64_t)W > a.runs) W = (int)std::max<uint64_t>(1, a.runs);
    volatile uint64_t *progress = (volatile uint64_t *)mmap(nullptr, sizeof(uint64_t) * W, PROT_READ | PROT_WRITE, MAP_SHARED | MAP_ANONYMOUS, -1, 0);
    std::string tmpdir = a.out.empty() ? std::string("/verif/build") : a.out.substr(0, a.out.find_last_of('/'));
    if (tmpdir.empty()) tmpdir = ".";
    double t0 = now_s();
    std::vector<std::string> files(W);
    std::vector<pid_t> pids(W);
    std::vector<ViolationRec> viols;
    std::vector<std::string> harness;
    auto start_worker = [&](int k, uint64_t start_r)
    {
        fflush(nullptr);
        pid_t pid = fork();
        if (pid == 0) worker_main(a, k, W, start_r, progress, files[k]);
        pids[k] = pid;
    };
    for (int k = 0; k < W; ++k)
    {
        files[k] = tmpdir + "/.stsim." + std::to_string(getpid()) + "." + std::to_string(k) + ".out";
        unlink(files[k].c_str());
        progress[k] = a.first + (uint64_t)k;
        start_worker(k, a.first + (uint64_t)k);
    }
    int alive = W, restarts = 0;
    uint64_t pseed = mix64(a.seed, hash_str(a.prop));
    while (alive > 0)
    {
        int st = 0;
        pid_t pid = wait(&st);
        if (pid < 0) break;
        int k = -1;
        for (int j = 0; j < W; ++j)
            if (pids[j] == pid) k = j;
        if (k < 0) continue;
        bool clean = WIFEXITED(st) && WEXITSTATUS(st) == 0 && progress[k] == ~0ULL;
        if (clean) { --alive; continue; }
        // the worker died inside run progress[k]
        uint64_t r = progress[k];
        int code = WIFSIGNALED(st) ? 100 + WTERMSIG(st) : WEXITSTATUS(st);
        if (r == ~0ULL) { harness.push_back("worker " + std::to_string(k) + " exited with code " + std::to_string(code) + " after finishing"); --alive; continue; }
        ViolationRec v;
        v.r = r;
        v.seed = mix64(pseed, r);
        v.crash = true;
        v.cls = crash_class(a.prop, code);
        viols.push_back(v);
        if (++restarts > 12 || r + (uint64_t)W >= a.first + a.runs) { --alive; continue; }
        start_worker(k, r + (uint64_t)W);
    }
    // ---- collect -----------------------------------------------------------
    std::map<std::string, uint64_t> counters, per_universe;
    std::set<uint64_t> digests, nontrivial_digests, states, schedules, interleaved;
    uint64_t runs = 0, steps = 0, switches = 0, oracle_checks = 0, nontrivial_runs = 0, suppressed = 0;
    std::vector<std::string> samples;
    std::vector<std::pair<uint64_t, uint64_t>> dig_list;
    for (int k = 0; k < W; ++k)
    {
        std::ifstream f(files[k]);
        std::string line;
        while (std::getline(f, line))
        {
            if (line.empty()) continue;
            std::istringstream ls(line);
            char tag;
            ls >> tag;
            if (tag == 'R')
            {
                uint64_t r, seed, d, sd, sh, st;
                int fl;
                ls >> std::dec >> r >> seed >> std::hex >> d >> sd >> sh >> std::dec >> fl >> st;
                ++runs;
                digests.insert(d);
                states.insert(sd);
                schedules.insert(sh);
                if (fl & 1) { nontrivial_digests.insert(d); ++nontrivial_runs; }
                if (fl & 2) interleaved.insert(sh);
                if (!a.digests.empty()) dig_list.push_back({r, d});
            }
            else if (tag == 'C') { std::string n; uint64_t v; ls >> n >> v; counters[n] += v; }
            else if (tag == 'U') { std::string n; uint64_t v; ls >> n >> v; per_universe[n] += v; }
            else if (tag == 'T') { uint64_t s1, s2, s3; ls >> s1 >> s2 >> s3; steps += s1; switches += s2; oracle_checks += s3; }
            else if (tag == 'S') { if (samples.size() < 6) samples.push_back(line.substr(2)); }
            else if (tag == 'H') harness.push_back(line.substr(2));
            else if (tag == 'X') ++suppressed;
            else if (tag == 'V')
            {
                ViolationRec v;
                ls >> v.r >> v.seed >> v.universe >> v.cls >> v.path;
                std::getline(ls, v.msg);
                viols.push_back(v);
            }
        }
        unlink(files[k].c_str());
    }
    // ---- crashes: regenerate, minimise in isolation, write replay -----------
    Tier tier = a.tier == "thorough" ? Tier::Thorough : Tier::Quick;
    for (auto &v : viols)
    {
        if (!v.crash) continue;
        const Workload *w = choose_workload(ws, v.seed);
        Plan plan = w->gen(v.seed, v.r, tier);
        plan.prop = w->prop;
        plan.universe = w->universe;
        plan.seed = v.seed;
        if (plan.sched_seed == 0) plan.sched_seed = mix64(v.seed, 0x5ced);
        v.universe = w->universe;
        Tester t{w, v.cls, 120};
        t.isolated = true;
        Plan min = plan;
        if (t.fails(plan)) min = minimise(t, plan);
        else harness.push_back("crash of run " + std::to_string(v.r) + " (" + v.cls + ") did not reproduce in an isolated child");
        min.expect = v.cls;
        v.path = write_replay(a, *w, min);
        v.msg = " | worker died; ops " + std::to_string(plan.ops.size()) + "->" + std::to_string(min.ops.size());
    }
    // ---- gate 3: every replay file reproduces in a fresh process ------------
    int confirmed = 0;
    for (auto &v : viols)
    {
        std::string cls;
        int code = fresh_replay(v.path, cls);
        // reproduced = the fresh process fails again for this property (same class normally; a different class or a
        // crash is accepted and shown, since undefined behaviour in the system under test need not repeat exactly)
        bool ok = (code == 1 && cls.rfind(a.prop + "/", 0) == 0) || code == 77 || code >= 100;
        if (ok && !(code == 1 && cls == v.cls) && !(v.crash && crash_class(a.prop, code) == v.cls))
            v.msg += " | fresh-process replay failed as " + (code == 1 ? cls : crash_class(a.prop, code));
        v.confirmed = ok;
        if (!ok)
            harness.push_back("gate3: replay of " + v.path + " in a fresh process gave exit " + std::to_string(code) + " class '" + cls + "' instead of '" + v.cls + "'");
        else
            ++confirmed;
    }
    double wall = now_s() - t0;
    if (!a.digests.empty())
    {
        std::sort(dig_list.begin(), dig_list.end());
        std::ofstream df(a.digests);
        for (auto &p : dig_list) df << p.first << ' ' << std::hex << p.second << std::dec << "\n";
    }
    // ---- summary -------------------------------------------------------------
    std::ostringstream js;
    js << "{\n \"prop\": \"" << a.prop << "\", \"seed\": " << a.seed << ", \"tier\": \"" << a.tier << "\",\n";
    js << " \"runs\": " << runs << ", \"requested_runs\": " << a.runs << ", \"workers\": " << W << ", \"wall_s\": " << wall << ",\n";
    js << " \"steps\": " << steps << ", \"switches\": " << switches << ", \"oracle_checks\": " << oracle_checks << ",\n";
    js << " \"distinct_digests\": " << digests.size() << ", \"distinct_nontrivial\": " << nontrivial_digests.size()
       << ", \"nontrivial_runs\": " << nontrivial_runs << ",\n";
    js << " \"distinct_states\": " << states.size() << ", \"distinct_schedules\": " << schedules.size()
       << ", \"distinct_interleaved_schedules\": " << interleaved.size() << ",\n";
    js << " \"worker_restarts\": " << restarts << ", \"suppressed_violations\": " << suppressed << ",\n";
    js << " \"counters\": {";
    bool first = true;
    for (auto &c : counters) { js << (first ? "" : ", ") << "\"" << c.first << "\": " << c.second; first = false; }
    js << "},\n \"by_universe\": {";
    first = true;
    for (auto &c : per_universe) { js << (first ? "" : ", ") << "\"" << c.first << "\": " << c.second; first = false; }
    js << "},\n \"samples\": [";
    first = true;
    for (auto &s : samples) { js << (first ? "" : ", ") << "\"" << json_escape(s) << "\""; first = false; }
    js << "],\n \"violations\": [";
    first = true;
    for (auto &v : viols)
    {
        js << (first ? "" : ", ") << "{\"class\": \"" << v.cls << "\", \"replay\": \"" << v.path << "\", \"universe\": \"" << v.universe
           << "\", \"confirmed\": " << (v.confirmed ? "true" : "false") << ", \"seed\": " << v.seed << ", \"run\": " << v.r << ", \"msg\": \"" << json_escape(v.msg) << "\"}";
        first = false;
    }
    js << "],\n \"harness_errors\": [";
    first = true;
    for (auto &h : harness) { js << (first ? "" : ", ") << "\"" << json_escape(h) << "\""; first = false; }
    js << "]\n}\n";
    if (!a.out.empty())
    {
        std::ofstream of(a.out);
        of << js.str();
    }
    else
        std::cout << js.str();
    for (auto &h : harness) fprintf(stderr, "HARNESS: %s\n", h.c_str());
    for (auto &v : viols) printf("CANDIDATE property=%s class=%s replay=%s%s\n", a.prop.c_str(), v.cls.c_str(), v.path.c_str(), v.msg.c_str());
    printf("stsim %s: %llu runs, %.1fs, %zu distinct logs, %zu violation candidate(s), %zu harness error(s)\n", a.prop.c_str(),
           (unsigned long long)runs, wall, digests.size(), viols.size(), harness.size());
    if (!harness.empty()) return 2;
    if (runs + viols.size() < a.runs && a.max_seconds <= 0) return 2;
    return viols.empty() ? 0 : 1;
}

} // namespace sim

int main(int argc, char **argv)
{
    using namespace sim;
#if !defined(STSIM_ASAN) && !defined(STSIM_TSAN)
    // fresh and freed heap memory is filled with a pattern: a read of stale or uninitialised memory by the
    // system under test gives the same garbage in every process instead of whatever the heap happened to hold
    mallopt(M_PERTURB, 0xA5);
#endif
    setvbuf(stdout, nullptr, _IOLBF, 0);
    Args a;
    if (argc < 2) { fprintf(stderr, "usage: stsim list|run|replay ...\n"); return 2; }
    a.cmd = argv[1];
    for (int i = 2; i < argc; ++i)
    {
        std::string s = argv[i];
        auto val = [&]() -> std::string { return i + 1 < argc ? argv[++i] : ""; };
        if (s == "--prop") a.prop = val();
        else if (s == "--universe") a.universe = val();
        else if (s == "--seed") a.seed = std::strtoull(val().c_str(), nullptr, 10);
        else if (s == "--runs") a.runs = std::strtoull(val().c_str(), nullptr, 10);
        else if (s == "--first") a.first = std::strtoull(val().c_str(), nullptr, 10);
        else if (s == "--workers") a.workers = std::atoi(val().c_str());
        else if (s == "--tier") a.tier = val();
        else if (s == "--out") a.out = val();
        else if (s == "--replay-dir") a.replay_dir = val();
        else if (s == "--digests") a.digests = val();
        else if (s == "--max-seconds") a.max_seconds = std::atof(val().c_str());
        else if (s == "--max-violations") a.max_violations = std::atoi(val().c_str());
        else if (s == "--min-budget") a.min_budget = std::atoi(val().c_str());
        else if (s == "--isolate") a.isolate = true;
        else if (s == "-v") a.verbose = true;
        else if (a.file.empty()) a.file = s;
    }
    if (a.cmd == "list")
    {
        auto &r = registry();
        std::vector<std::string> names;
        for (auto &w : r) names.push_back(w.prop + " " + w.universe + (w.fibers ? " fibers" : ""));
        std::sort(names.begin(), names.end());
        for (auto &n : names) printf("%s\n", n.c_str());
        return 0;
    }
    if (a.cmd == "replay") return cmd_replay(a);
    if (a.cmd == "run") return cmd_run(a);
    fprintf(stderr, "unknown command %s\n", a.cmd.c_str());
    return 2;
}
