// Link-time wrappers (-Wl,--wrap=pthread_mutex_*): header-only library code is
// compiled into the harness objects, so a std::mutex used by the library (today:
// none; after a lock-based repair of the layout cache: one) reaches these.
// Inside a simulated run, blocking is cooperative: a fiber that cannot take the
// lock is parked and the scheduler picks somebody else, instead of deadlocking
// the single OS thread.  Outside a run the real functions are called.
#include "sched.hpp"
#include <pthread.h>

extern "C"
{
    int __real_pthread_mutex_lock(pthread_mutex_t *m);
    int __real_pthread_mutex_unlock(pthread_mutex_t *m);
    int __real_pthread_mutex_trylock(pthread_mutex_t *m);
    pthread_t __real_pthread_self(void);
    extern int stsim_fiber_identity; // 0 outside a run and on the main context

    // Every fiber is a thread of its own as far as the library can tell: code that remembers "the thread that did X"
    // (std::this_thread::get_id() is pthread_self() in header-only code) sees one identity per fiber.
    pthread_t __wrap_pthread_self(void)
    {
        pthread_t real = __real_pthread_self();
        if (stsim_fiber_identity == 0) return real;
        return (pthread_t)((unsigned long)real + 0x100000UL * (unsigned long)stsim_fiber_identity);
    }

    int __wrap_pthread_mutex_lock(pthread_mutex_t *m)
    {
        sim::Sched &S = sim::Sched::get();
        if (!S.in_run()) return __real_pthread_mutex_lock(m);
        if (sim::RunCtx *c = sim::cur_ctx()) c->count("probe.mutex_lock");
        // pthread_mutex_lock is declared nothrow: a detected deadlock is recorded and reported through the return value
        // (std::mutex::lock then throws std::system_error, which unwinds the library normally); the run is classified
        // as a stall by the runner
        try
        {
            S.mutex_lock(m);
        }
        catch (const sim::Stall &e)
        {
            sim::pending_stall() = e.msg;
            return 35; /* EDEADLK */
        }
        catch (...)
        {
            // e.g. the run is being aborted because another fiber failed: hand the original failure to the runner
            sim::pending_error() = std::current_exception();
            return 35;
        }
        return 0;
    }
    int __wrap_pthread_mutex_unlock(pthread_mutex_t *m)
    {
        sim::Sched &S = sim::Sched::get();
        if (!S.in_run()) return __real_pthread_mutex_unlock(m);
        S.mutex_unlock(m);
        return 0;
    }
    int __wrap_pthread_mutex_trylock(pthread_mutex_t *m)
    {
        sim::Sched &S = sim::Sched::get();
        if (!S.in_run()) return __real_pthread_mutex_trylock(m);
        return S.mutex_trylock(m) ? 0 : 16 /* EBUSY */;
    }
}
