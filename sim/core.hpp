// Core of the deterministic simulator: PRNG, digests, plans, run context,
// violation type and workload registry.  Nothing in here touches /repo.
#pragma once
#include <cstdint>
#include <cstdio>
#include <cstdlib>
#include <cstring>
#include <cmath>
#include <string>
#include <vector>
#include <map>
#include <set>
#include <sstream>
#include <stdexcept>
#include <functional>
#include <memory>

namespace sim
{

// ---------------------------------------------------------------- PRNG ----
inline uint64_t splitmix64(uint64_t &x)
{
    uint64_t z = (x += 0x9e3779b97f4a7c15ULL);
    z = (z ^ (z >> 30)) * 0xbf58476d1ce4e5b9ULL;
    z = (z ^ (z >> 27)) * 0x94d049bb133111ebULL;
    return z ^ (z >> 31);
}

inline uint64_t mix64(uint64_t a, uint64_t b)
{
    uint64_t x = a ^ (b + 0x9e3779b97f4a7c15ULL + (a << 6) + (a >> 2));
    return splitmix64(x);
}

// xoshiro256**
struct Rng
{
    uint64_t s[4];
    Rng() : Rng(0) {}
    explicit Rng(uint64_t seed) { reseed(seed); }
    Rng(uint64_t seed, uint64_t stream) { reseed(mix64(seed, stream)); }
    void reseed(uint64_t seed)
    {
        uint64_t x = seed;
        for (int i = 0; i < 4; ++i) s[i] = splitmix64(x);
    }
    static uint64_t rotl(uint64_t x, int k) { return (x << k) | (x >> (64 - k)); }
    uint64_t next()
    {
        const uint64_t result = rotl(s[1] * 5, 7) * 9;
        const uint64_t t = s[1] << 17;
        s[2] ^= s[0]; s[3] ^= s[1]; s[1] ^= s[2]; s[0] ^= s[3];
        s[2] ^= t; s[3] = rotl(s[3], 45);
        return result;
    }
    // uniform in [0, n)   (n >= 1)
    uint64_t below(uint64_t n) { return n <= 1 ? 0 : next() % n; }
    // uniform integer in [a, b]
    int64_t range(int64_t a, int64_t b) { return a + (int64_t)below((uint64_t)(b - a + 1)); }
    // uniform in [0,1)
    double unit() { return (double)(next() >> 11) * (1.0 / 9007199254740992.0); }
    double real(double a, double b) { return a + (b - a) * unit(); }
    bool chance(double p) { return unit() < p; }
    // log-uniform in [a,b], a>0
    double logreal(double a, double b) { return std::exp(real(std::log(a), std::log(b))); }
    template <class T> const T &pick(const std::vector<T> &v) { return v[below(v.size())]; }
};

// -------------------------------------------------------------- digest ----
struct Digest
{
    uint64_t h = 0xcbf29ce484222325ULL;
    void bytes(const void *p, size_t n)
    {
        const unsigned char *c = (const unsigned char *)p;
        for (size_t i = 0; i < n; ++i) { h ^= c[i]; h *= 0x100000001b3ULL; }
    }
    void u64(uint64_t v) { h = mix64(h, v); }
    void i64(int64_t v) { u64((uint64_t)v); }
    void f64(double v) { uint64_t b; std::memcpy(&b, &v, 8); u64(b); }
    void str(const std::string &s) { bytes(s.data(), s.size()); u64(s.size()); }
    void str(const char *s) { size_t n = std::strlen(s); bytes(s, n); u64(n); }
};

inline uint64_t bits_of(double v) { uint64_t b; std::memcpy(&b, &v, 8); return b; }
inline bool same_bits(double a, double b) { return bits_of(a) == bits_of(b); }

// ---------------------------------------------------------------- plan ----
// An operation: a kind plus integer and floating arguments.  Faults are
// operations or attributes of operations (never global call counters), so a
// plan survives the removal of arbitrary operations.  All interpreters are
// total: every integer is mapped into the legal range of its role.
struct Op
{
    int kind = 0;
    std::vector<int64_t> i;
    std::vector<double> d;
    int64_t I(size_t k, int64_t dflt = 0) const { return k < i.size() ? i[k] : dflt; }
    double D(size_t k, double dflt = 0.0) const { return k < d.size() ? d[k] : dflt; }
};

struct Plan
{
    std::string prop;      // C03 ...
    std::string universe;  // e.g. q3 (quintic, DIM 3)
    uint64_t seed = 0;     // run seed the plan was generated from (informational)
    std::vector<int64_t> ci; // configuration integers (swarm choices)
    std::vector<double> cd;  // configuration reals
    std::vector<Op> ops;
    std::vector<uint32_t> schedule; // raw scheduler choices (interpreted modulo #runnable)
    uint64_t sched_seed = 0;        // used when the recorded schedule is exhausted / absent
    bool sched_recorded = false;    // true: use `schedule` then zeros; false: draw from sched_seed
    std::string expect;             // expected violation class for a replay file ("" = none)
    int64_t CI(size_t k, int64_t dflt = 0) const { return k < ci.size() ? ci[k] : dflt; }
    double CD(size_t k, double dflt = 0.0) const { return k < cd.size() ? cd[k] : dflt; }
};

std::string plan_to_text(const Plan &p, const char *const *op_names, int n_op_names);
bool plan_from_text(const std::string &text, Plan &p, const char *const *op_names, int n_op_names, std::string &err);
std::string plan_pretty(const Plan &p, const char *const *op_names, int n_op_names, size_t max_ops = 64);

// ----------------------------------------------------------- violation ----
struct Violation : std::exception
{
    std::string oracle; // stable class id, e.g. "route_mismatch"
    std::string msg;
    Violation(std::string o, std::string m) : oracle(std::move(o)), msg(std::move(m)) {}
    const char *what() const noexcept override { return msg.c_str(); }
};

// thrown by the harness for its own trouble (exit 2, never a VIOLATION)
struct HarnessError : std::runtime_error
{
    using std::runtime_error::runtime_error;
};

// thrown from the redefined eigen_assert (library indexing out of range etc.)
struct EigenAssert : std::exception
{
    std::string msg;
    explicit EigenAssert(const char *m) : msg(m) {}
    const char *what() const noexcept override { return msg.c_str(); }
};

// thrown by simulated maps when called through a destroyed instance
struct DeadMap : std::exception
{
    const char *what() const noexcept override { return "call through a destroyed map instance"; }
};

// An injected fault that the system under test is expected to survive: a user callback is cancelled
// (throws) in the middle of a library operation and the caller catches it.  Unlike every other exception
// it does not end the run when it escapes a fiber: it is delivered to whoever joins that fiber.
struct InjectedAbort : std::exception
{
    const char *what() const noexcept override { return "injected cancellation of a user callback"; }
};

struct Stall : std::exception
{
    std::string msg;
    explicit Stall(std::string m) : msg(std::move(m)) {}
    const char *what() const noexcept override { return msg.c_str(); }
};

// ------------------------------------------------------------- context ----
class Sched;

// Harness bookkeeping shared between fibers (event log, counters, traces) is
// not part of the system under test.  In the race-detector variant every access
// to it happens under this guard, which tells TSan to ignore the current
// fiber's memory accesses; it is a no-op in the other variants.
void norace_begin();
void norace_end();
struct NoRace
{
    NoRace() { norace_begin(); }
    ~NoRace() { norace_end(); }
    NoRace(const NoRace &) = delete;
    NoRace &operator=(const NoRace &) = delete;
};

struct RunCtx
{
    Digest log;    // event log digest: ops, decisions, every compared value
    Digest state;  // digest of observable states only (values oracles compared)
    std::map<std::string, uint64_t> counters; // ops.*, fault.*, probe.*, oracle.*
    std::vector<std::string> *trace = nullptr; // verbose event log (replay -v)
    bool nontrivial = false;
    uint64_t oracle_checks = 0;
    void count(const char *name, uint64_t n = 1) { NoRace g; counters[name] += n; }
    void count(const std::string &name, uint64_t n = 1) { NoRace g; counters[name] += n; }
    void ev(const char *what) { NoRace g; log.str(what); if (trace) trace->push_back(what); }
    void evs(const std::string &what) { NoRace g; log.str(what); if (trace) trace->push_back(what); }
    void val(double v) { NoRace g; log.f64(v); state.f64(v); if (dump_values()) std::fprintf(stderr, "VAL %a\n", v); }
    static bool dump_values() { static const bool d = std::getenv("STSIM_DUMP_VALUES") != nullptr; return d; }
    void ival(int64_t v) { NoRace g; log.i64(v); state.i64(v); }
    void checked() { NoRace g; ++oracle_checks; }
    void mark_nontrivial() { NoRace g; nontrivial = true; }
};

RunCtx *&cur_ctx(); // context of the run being executed (one per process at a time)

#define SIM_FAIL(oracle_id, streamexpr)                                   \
    do {                                                                  \
        std::ostringstream sim_os_;                                       \
        sim_os_ << streamexpr;                                            \
        throw ::sim::Violation(oracle_id, sim_os_.str());                 \
    } while (0)

#define SIM_CHECK(cond, oracle_id, streamexpr)                            \
    do {                                                                  \
        ::sim::cur_ctx()->checked();                                      \
        if (!(cond)) SIM_FAIL(oracle_id, streamexpr);                     \
    } while (0)

// ------------------------------------------------------------ workloads ---
enum class Tier { Quick, Thorough };

struct Workload
{
    std::string prop;
    std::string universe;
    // Generate the plan of run `seed` (universe already chosen).  `index` is the
    // run index within the batch: enumerating workloads map it to a point of
    // their finite space before falling back to random plans.
    Plan (*gen)(uint64_t seed, uint64_t index, Tier tier) = nullptr;
    // Execute: throws Violation / EigenAssert / DeadMap / Stall on a property failure.
    void (*exec)(const Plan &, RunCtx &) = nullptr;
    const char *const *op_names = nullptr;
    int n_op_names = 0;
    bool fibers = false;
    int weight = 1; // relative share of runs
};

std::vector<Workload> &registry();
struct Register
{
    explicit Register(const Workload &w) { registry().push_back(w); }
};

const Workload *find_workload(const std::string &prop, const std::string &universe);

// hex-float formatting that round-trips exactly
std::string fmt_double(double v);
double parse_double(const std::string &s);

} // namespace sim
