#include "core.hpp"
#include <cstdlib>
#include <algorithm>

namespace sim
{

RunCtx *&cur_ctx()
{
    static RunCtx *p = nullptr;
    return p;
}

std::vector<Workload> &registry()
{
    static std::vector<Workload> r;
    return r;
}

const Workload *find_workload(const std::string &prop, const std::string &universe)
{
    for (auto &w : registry())
        if (w.prop == prop && w.universe == universe) return &w;
    return nullptr;
}

std::string fmt_double(double v)
{
    char buf[64];
    if (std::isnan(v)) return std::signbit(v) ? "-nan" : "nan";
    if (std::isinf(v)) return v < 0 ? "-inf" : "inf";
    std::snprintf(buf, sizeof buf, "%a", v);
    return buf;
}

double parse_double(const std::string &s)
{
    if (s == "nan") return std::nan("");
    if (s == "-nan") return -std::nan("");
    if (s == "inf") return INFINITY;
    if (s == "-inf") return -INFINITY;
    return std::strtod(s.c_str(), nullptr);
}

static std::string op_name(int kind, const char *const *names, int n)
{
    if (names && kind >= 0 && kind < n) return names[kind];
    return "op" + std::to_string(kind);
}

std::string plan_to_text(const Plan &p, const char *const *names, int n)
{
    std::ostringstream os;
    os << "stsim-replay 1\n";
    os << "prop " << p.prop << "\n";
    os << "universe " << p.universe << "\n";
    os << "seed " << p.seed << "\n";
    os << "expect " << (p.expect.empty() ? "-" : p.expect) << "\n";
    os << "ci";
    for (auto v : p.ci) os << ' ' << v;
    os << "\ncd";
    for (auto v : p.cd) os << ' ' << fmt_double(v);
    os << "\n";
    for (auto &o : p.ops)
    {
        os << "op " << op_name(o.kind, names, n) << " i";
        for (auto v : o.i) os << ' ' << v;
        os << " d";
        for (auto v : o.d) os << ' ' << fmt_double(v);
        os << "\n";
    }
    os << "sched_seed " << p.sched_seed << "\n";
    os << "sched_recorded " << (p.sched_recorded ? 1 : 0) << "\n";
    os << "sched";
    for (auto v : p.schedule) os << ' ' << v;
    os << "\nend\n";
    return os.str();
}

bool plan_from_text(const std::string &text, Plan &p, const char *const *names, int n, std::string &err)
{
    std::istringstream is(text);
    std::string line;
    p = Plan();
    bool seen_end = false, seen_head = false;
    while (std::getline(is, line))
    {
        if (line.empty() || line[0] == '#') continue;
        std::istringstream ls(line);
        std::string key;
        ls >> key;
        if (key == "stsim-replay") { seen_head = true; continue; }
        if (key == "prop") ls >> p.prop;
        else if (key == "universe") ls >> p.universe;
        else if (key == "seed") ls >> p.seed;
        else if (key == "expect") { ls >> p.expect; if (p.expect == "-") p.expect.clear(); }
        else if (key == "ci") { int64_t v; while (ls >> v) p.ci.push_back(v); }
        else if (key == "cd") { std::string t; while (ls >> t) p.cd.push_back(parse_double(t)); }
        else if (key == "op")
        {
            Op o;
            std::string nm, t;
            ls >> nm;
            o.kind = -1;
            for (int k = 0; k < n; ++k)
                if (names && nm == names[k]) o.kind = k;
            if (o.kind < 0 && nm.rfind("op", 0) == 0) o.kind = std::atoi(nm.c_str() + 2);
            if (o.kind < 0) { err = "unknown op " + nm; return false; }
            int mode = 0;
            while (ls >> t)
            {
                if (t == "i") { mode = 1; continue; }
                if (t == "d") { mode = 2; continue; }
                if (mode == 1) o.i.push_back(std::strtoll(t.c_str(), nullptr, 10));
                else if (mode == 2) o.d.push_back(parse_double(t));
            }
            p.ops.push_back(std::move(o));
        }
        else if (key == "sched_seed") ls >> p.sched_seed;
        else if (key == "sched_recorded") { int v = 0; ls >> v; p.sched_recorded = v != 0; }
        else if (key == "sched") { uint32_t v; while (ls >> v) p.schedule.push_back(v); }
        else if (key == "end") seen_end = true;
        else { err = "unknown key " + key; return false; }
    }
    if (!seen_head || !seen_end) { err = "truncated or not a replay file"; return false; }
    return true;
}

std::string plan_pretty(const Plan &p, const char *const *names, int n, size_t max_ops)
{
    std::ostringstream os;
    os << p.prop << "/" << p.universe << " seed=" << p.seed << " cfg=[";
    for (size_t k = 0; k < p.ci.size(); ++k) os << (k ? "," : "") << p.ci[k];
    os << "] ops:";
    size_t shown = 0;
    for (auto &o : p.ops)
    {
        if (shown++ >= max_ops) { os << " ...(+" << (p.ops.size() - max_ops) << ")"; break; }
        os << ' ' << op_name(o.kind, names, n) << '(';
        for (size_t k = 0; k < o.i.size(); ++k) os << (k ? "," : "") << o.i[k];
        if (!o.d.empty())
        {
            os << ';';
            for (size_t k = 0; k < o.d.size(); ++k)
            {
                char b[32];
                std::snprintf(b, sizeof b, "%.6g", o.d[k]);
                os << (k ? "," : "") << b;
            }
        }
        os << ')';
    }
    if (p.sched_recorded) os << " sched[" << p.schedule.size() << "]";
    return os.str();
}

} // namespace sim
