# Builds the simulator (stsim) in three variants from /repo's CURRENT working tree.
#   plain : g++   -O1, IEEE-conforming (no -ffast-math, no fp contraction) – all oracles
#   asan  : clang -O1 -fsanitize=address,undefined – lifetime / bounds
#   tsan  : clang -O1 -fsanitize=thread – deterministic race detection on fibers (C12)
# Units that include /repo/include are rebuilt whenever the *content* of the two
# library headers changes (build/repo.stamp), independent of mtimes.
REPO ?= /repo
B := build
SHELL := /bin/bash

INC = -I. $(if $(filter cov,$(1)),-I$(REPO)/include,-isystem $(REPO)/include) -isystem /usr/include/eigen3
COMMON := -std=c++17 -g1 -ffp-contract=off -fno-fast-math -DSPLINETRAJECTORY_VERIF -Wall -Wno-unused-parameter -Wno-unused-variable -Wno-unused-but-set-variable -Wno-unused-local-typedefs

CXX_plain := g++
CXX_asan := clang++
CXX_tsan := clang++
FLAGS_plain := -O1
FLAGS_asan := -O1 -fsanitize=address,undefined -fno-sanitize-recover=undefined -fno-omit-frame-pointer -DSTSIM_ASAN
FLAGS_tsan := -O1 -fsanitize=thread -fno-omit-frame-pointer -DSTSIM_TSAN
LD_plain :=
LD_asan := -fsanitize=address,undefined
LD_tsan := -fsanitize=thread
WRAP := -Wl,--wrap=pthread_mutex_lock -Wl,--wrap=pthread_mutex_unlock -Wl,--wrap=pthread_mutex_trylock -Wl,--wrap=pthread_self

SIM_SRCS := sim/core.cpp sim/sched.cpp sim/driver.cpp sim/san.cpp sim/wrap_mutex.cpp props/selftest.cpp
UNIT_SRCS := $(sort $(wildcard units/*.cpp))
# the race-detector variant only needs the units that host concurrent workloads
UNIT_SRCS_tsan := $(sort $(wildcard units/conc_*.cpp))

CXX_cov := clang++
FLAGS_cov := -O0 -fprofile-instr-generate -fcoverage-mapping
LD_cov := -fprofile-instr-generate

VARIANTS := plain asan tsan cov

.PHONY: all FORCE clean $(VARIANTS)
all: plain asan tsan
$(VARIANTS): %: $(B)/stsim_%

$(B)/repo.stamp: FORCE
	@mkdir -p $(B)
	@cat $(REPO)/include/SplineTrajectory.hpp $(REPO)/include/SplineOptimizer.hpp | sha256sum > $@.new
	@if cmp -s $@.new $@; then rm -f $@.new; else mv $@.new $@; echo "repo headers changed -> rebuilding units"; fi
FORCE:

define VARIANT_RULES
OBJS_$(1) := $$(patsubst %.cpp,$(B)/$(1)/%.o,$(SIM_SRCS)) $$(patsubst %.cpp,$(B)/$(1)/%.o,$$(if $$(UNIT_SRCS_$(1)),$$(UNIT_SRCS_$(1)),$(UNIT_SRCS)))

$(B)/stsim_$(1): $$(OBJS_$(1))
	$$(CXX_$(1)) $$(LD_$(1)) $(WRAP) -o $$@ $$^ -lpthread

$(B)/$(1)/units/%.o: units/%.cpp $(B)/repo.stamp
	@mkdir -p $$(dir $$@)
	@echo "  CXX[$(1)] $$<"; $$(CXX_$(1)) $(COMMON) $$(FLAGS_$(1)) $$(call INC,$(1)) -MMD -MP -c $$< -o $$@

$(B)/$(1)/sim/%.o: sim/%.cpp
	@mkdir -p $$(dir $$@)
	@echo "  CXX[$(1)] $$<"; $$(CXX_$(1)) $(COMMON) $$(if $$(filter sched wrap_mutex san,$$*),$$(filter-out -fsanitize=thread,$$(FLAGS_$(1))),$$(FLAGS_$(1))) $$(call INC,$(1)) -MMD -MP -c $$< -o $$@

$(B)/$(1)/props/%.o: props/%.cpp
	@mkdir -p $$(dir $$@)
	@echo "  CXX[$(1)] $$<"; $$(CXX_$(1)) $(COMMON) $$(FLAGS_$(1)) $$(call INC,$(1)) -MMD -MP -c $$< -o $$@
endef
$(foreach v,$(VARIANTS),$(eval $(call VARIANT_RULES,$(v))))

-include $(shell find $(B) -name '*.d' 2>/dev/null)

clean:
	rm -rf $(B)
